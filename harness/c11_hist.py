"""C11 streams A–C: byte layout, threaded writer, and histories
construct -> mutate* -> consolidate(num_threads, metadata, file|memory) -> (mutate | lock | unlock | names | rename)* -> pickle / deepcopy
run on the implementation and on the Lean model (`c11.history`)."""
from __future__ import annotations

import copy
import itertools
import pickle
import shutil

import torch

from common import BUILD, Infra, Raw, parse_sx, sx, time_limit
from c11_canon import bits, lock_behaviour
from c12_fns import ask_batched

# dtypes that can be built and compared on cpu (quantised dtypes and complex32 have no usable constructors)
DT = [torch.uint8, torch.int8, torch.bool, torch.int16, torch.float16, torch.bfloat16, torch.int32, torch.float32,
      torch.int64, torch.float64, torch.complex64, torch.complex128, torch.uint16, torch.uint32, torch.uint64]


# torch cannot pickle / deepcopy plain uint16/32/64 tensors (UntypedStorage has no dtype): histories, which
# pickle non-consolidated tensordicts too, leave them out; the layout stream keeps them
DT_HIST = [d for d in DT if d not in (torch.uint16, torch.uint32, torch.uint64)]


def mk_tensor(rng, dtype, shape, salt):
    n = 1
    for s in shape:
        n *= s
    base = (torch.arange(n, dtype=torch.int64) * 7 + salt) % 23
    if dtype == torch.bool:
        return (base % 2 == 0).reshape(shape)
    if dtype.is_complex:
        return torch.complex(base.to(torch.float64), (base + 1).to(torch.float64)).to(dtype).reshape(shape)
    if dtype in (torch.uint16, torch.uint32, torch.uint64):
        return base.to(torch.int64).to(dtype).reshape(shape)
    return base.to(dtype).reshape(shape)


def sx_bytes(t):
    return bits(t)


def leaf_sx(path, t):
    return [list(path), str(t.dtype), t.element_size(), list(t.shape), sx_bytes(t)]


def gen_struct(rng, b, DT=DT, twins=False):
    """list of (path, dtype, shape): root leaves and one optional nested node 'n' (same batch dims)"""
    feats = [[], [], [1], [2], [3], [0], [2, 2]]
    n_root = rng.randint(1, 4)
    names = list("abcdefg")
    rng.shuffle(names)
    out = []
    pos_nested = rng.randint(0, n_root) if rng.random() < 0.6 else None
    for i in range(n_root):
        if pos_nested == i:
            for k in ["x", "y"][: rng.randint(1, 2)]:
                out.append((("n", k), rng.choice(DT), b + rng.choice(feats)))
        out.append(((names[i],), rng.choice(DT), b + rng.choice(feats)))
    if pos_nested == n_root:
        for k in ["x", "y"][: rng.randint(1, 2)]:
            out.append((("n", k), rng.choice(DT), b + rng.choice(feats)))
    if twins and len(out) >= 2 and rng.random() < 0.6:
        # two entries with the same dtype and shape (exchanging them leaves the metadata unchanged)
        i, j = rng.sample(range(len(out)), 2)
        out[j] = (out[j][0], out[i][1], out[i][2])
    return out


def build_td(struct, rng, b, device, names, nontensors=False):
    from tensordict import TensorDict
    td = TensorDict({}, batch_size=b, device=device, names=names)
    for i, (path, dt, shape) in enumerate(struct):
        if len(path) == 2 and path[0] not in td.keys():
            td[path[0]] = TensorDict({}, batch_size=b, device=device, names=names)
        td[path] = mk_tensor(rng, dt, shape, i)
    if nontensors:
        # NonTensorData entries: kept in the metadata of their node, not in the storage
        if rng.random() < 0.4:
            td.set_non_tensor("s", rng.choice(["hello", "x"]))
        if "n" in td.keys() and rng.random() < 0.3:
            td["n"].set_non_tensor("q", rng.choice(["in", "y"]))
    return td


def nt_atom(v):
    """a NonTensorData entry as the metadata record it: data, batch size, device"""
    return f"{v.data}:{'.'.join(str(x) for x in v.batch_size) or '-'}:{'none' if v.device is None else v.device}"


def nodes_of(td, path=()):
    from tensordict import NonTensorData, TensorDictBase
    out = [[list(path), list(td.batch_size), list(td.names) if td._has_names() else None, None if td.device is None else str(td.device), bool(td.is_locked),
            [[k, nt_atom(v)] for k, v in td.items() if isinstance(v, NonTensorData)]]]
    for k, v in td.items():
        if isinstance(v, TensorDictBase):
            out += nodes_of(v, path + (k,))
    return out


def obs_of(td):
    """the same observable the model prints: (nodes sorted by path, leaves in depth-first iteration order)"""
    leaves = []

    def walk(t, path):
        from tensordict import TensorDictBase
        for k, v in t.items():
            if isinstance(v, TensorDictBase):
                walk(v, path + (k,))
            elif isinstance(v, torch.Tensor):
                leaves.append([list(path + (k,)), str(v.dtype), list(v.shape), sx_bytes(v)])
    walk(td, ())
    return [sorted(nodes_of(td), key=lambda n: n[0]), leaves]


def norm_model_obs(o):
    nodes = sorted(([list(n[0]) if isinstance(n[0], list) else [], list(n[1]), None if n[2] == "none" else list(n[2]), None if n[3] == "none" else n[3], n[4] == "true", [list(q) for q in n[5]] if len(n) > 5 else []] for n in o[0]), key=lambda n: n[0])
    leaves = [[list(l[0]), l[1], list(l[2]), list(l[3])] for l in o[1]]
    return [nodes, leaves]


def dev_norm(o):
    return [[[n[0], n[1], n[2], n[3] or "cpu", n[4]] + ([[[q[0], q[1].rsplit(":", 1)[0] + ":" + ("cpu" if q[1].rsplit(":", 1)[1] == "none" else q[1].rsplit(":", 1)[1])] for q in n[5]]] if len(n) > 5 else [[]]) for n in o[0]], o[1]]


def flat_meta(md, prefix=()):
    """metadata["leaves"] of a consolidated tensordict in iteration order: (path, dtype, shape, start, stop, pad)"""
    out = []
    for k, v in md["leaves"].items():
        out.append((list(prefix + (k,)), v[0], list(v[1]), [v[2], v[3], v[4]]))
    for k, v in md.items():
        if k in ("cls", "non_tensors", "leaves", "cls_metadata", "size"):
            continue
        out += flat_meta(v, prefix + (k,))
    return out


def ordered_meta(td):
    """metadata leaves of a consolidated tensordict in the depth-first iteration order of its leaves"""
    by_path = {tuple(m[0]): m for m in flat_meta(td._consolidated["metadata"])}
    order = [tuple(l[0]) for l in obs_of(td)[1]]
    if set(order) == set(by_path):
        return [by_path[p] for p in order]
    return sorted(by_path.values(), key=lambda m: (m[3][0], m[3][1]))   # stale snapshot: order of the offsets


def by_path(o):
    """observable with the leaves sorted by key path (key order is not part of tensordict equality)"""
    return [o[0], sorted(o[1], key=lambda l: l[0])]


def run_layout(run, drv):
    """stream A: layout + encode + decode; stream B: threaded writer under every task order"""
    from tensordict import TensorDict
    from c12_threads import patched_pool
    rng = run.rng
    quick = run.tier == "quick"
    n_cases = 250 if quick else 1500
    cases = []
    for i in range(n_cases):
        b = rng.choice([[2], [3], [1], [2, 2], []])
        struct = gen_struct(rng, b)
        cases.append((b, struct))
    # every dtype once next to a 1-byte leaf (forces a misaligned start without padding)
    for dt in DT:
        cases.append(([1], [(("p",), torch.uint8, [1, 3]), (("q",), dt, [1, 1]), (("r",), torch.int8, [1])]))
    reqs_l, reqs_e = [], []
    tds = []
    for b, struct in cases:
        td = build_td(struct, rng, b, None, None)
        tds.append(td)
        leaves = [v for _, v in td.items(True, True)]
        # iteration order of the library = depth-first
        leaves = [td[tuple(l[0])] for l in obs_of(td)[1]]
        reqs_l.append(sx("c11.layout", [v.element_size() * v.numel() for v in leaves]))
        reqs_e.append(sx("c11.encode", *[sx_bytes(v) for v in leaves]) if leaves else "(c11.encode)")
    a_l = [parse_sx(a) for a in ask_batched(drv, reqs_l, 50)]
    a_e = [parse_sx(a) for a in ask_batched(drv, reqs_e, 20)]
    for (b, struct), td, ml, me in zip(cases, tds, a_l, a_e):
        key = ("layout", str(b), str([(p, str(d), s) for p, d, s in struct]))
        run.case(key)
        for d in {str(d) for _, d, _ in struct}:
            run.count("layout.dtype", d)
        nt = run.rng.choice([0, 1, 4])
        try:
            with time_limit(120):
                c = td.consolidate(num_threads=nt)
            meta = ordered_meta(c)
            impl = ["ok", [m[3] for m in meta], bytes(c._consolidated["storage"].tolist()).hex()]
            dec = sorted(obs_of(pickle.loads(pickle.dumps(c)))[1], key=lambda l: l[0])
        except TimeoutError as e:
            raise Infra(f"consolidate timed out: {e}")
        except Exception as e:  # noqa: BLE001
            impl = ["err", f"{type(e).__name__}: {str(e)[:120]}"]
            dec = None
        model = ["ok", [list(s) for s in ml[0]], bytes(me).hex()]
        run.corr(f"layout+bytes(num_threads={nt})", [str(b), str(struct)], impl, model)
        # the property on this input: consolidate and the pickle of the consolidated copy reproduce the leaves bit for bit
        ref = sorted(obs_of(td)[1], key=lambda l: l[0])
        if impl[0] == "err":
            run.oracle_fail("consolidate_roundtrip", [str(b), str(struct), nt], f"consolidate raised {impl[1]}", "consolidate:raise:" + impl[1].split(":")[0])
        elif sorted(obs_of(c)[1], key=lambda l: l[0]) != ref or dec != ref:
            run.oracle_fail("consolidate_roundtrip", [str(b), str(struct), nt], "leaves differ after consolidate / pickle of the consolidated copy", "consolidate:values")
        else:
            run.oracle_ok("consolidate_roundtrip")
    run.sample({"stream": "layout", "case": reqs_l[0], "model": str(a_l[0])[:300]})
    # ---- stream B: every completion order of the assign tasks
    n_b = 10 if quick else 60
    for it in range(n_b):
        b = [2]
        k = rng.randint(2, 5 if it < n_b - 2 else 7)
        struct = [((chr(97 + i),), rng.choice(DT), b + rng.choice([[], [1], [3], [0]])) for i in range(k)]
        td = build_td(struct, rng, b, None, None)
        leaves = [v for _, v in td.items()]
        if k <= 4:
            orders = list(itertools.permutations(range(k)))
        elif k == 5:
            orders = rng.sample(list(itertools.permutations(range(k))), 30 if quick else 120)
        else:
            orders = [tuple(rng.sample(range(k), k)) for _ in range(10)]
        reqs = [sx("c11.threaded", list(o), *[sx_bytes(v) for v in leaves]) for o in orders]
        answers = [parse_sx(a) for a in ask_batched(drv, reqs, 20)]
        try:
            ref = td.consolidate(num_threads=0)
        except Exception as e:  # noqa: BLE001
            run.oracle_fail("consolidate_roundtrip", [str(struct), 0], f"consolidate raised {type(e).__name__}: {str(e)[:120]}", "consolidate:raise:" + type(e).__name__)
            continue
        ref_bytes = bytes(ref._consolidated["storage"].tolist())
        for o, m in zip(orders, answers):
            run.case(("threaded", it, o))
            with patched_pool(order=list(o)) as pp:
                try:
                    with time_limit(120):
                        c = td.consolidate(num_threads=3)
                    ex = pp.executors[0]
                    if len(ex.submitted) == len(o) and ex.ran != list(o):
                        raise Infra("permuting executor did not realise the order")
                    impl = bytes(c._consolidated["storage"].tolist()).hex()
                except TimeoutError as e:
                    raise Infra(f"consolidate timed out: {e}")
                except Infra:
                    raise
                except Exception as e:  # noqa: BLE001
                    impl = f"err {type(e).__name__}: {e}"
            run.corr("threaded_storage(every order)", [str(struct), list(o)], impl, bytes(m).hex())
            if impl != ref_bytes.hex():
                run.oracle_fail("threaded_eq_single", [str(struct), list(o)], "storage of the threaded writer differs from the num_threads=0 storage", "threaded")
            else:
                run.oracle_ok("threaded_eq_single")


# --------------------------------------------------------------------------------------- histories
def gen_history(rng, td_paths, consolidated_at):
    pass


TORCH_SAVE_REFUSAL = "view the same data as different types"


def torch_trip(td):
    """torch.save / torch.load through a buffer (pickle with torch's storage records; goes through `_reduce_td` like pickle)"""
    import io
    buf = io.BytesIO()
    torch.save(td, buf)
    buf.seek(0)
    return torch.load(buf, weights_only=False)


def expand_ops(ops):
    """the ops as the model runs them: a trip to another process and back is two reductions"""
    out = []
    for op in ops:
        if op[0] == "reduce":
            out += [["reduce"]] * (2 if op[1] in ("fork", "spawn") else 1)
        else:
            out.append(op)
    return out


def compare_history(run, m, td, case, consolidated, is_current):
    """model answer `m` of c11.history vs the tensordict `td` after the same history: state, snapshot, freshness, pickle, deepcopy"""
    m_fresh, m_lay, m_fixed, m_pinned, m_obs = m[0], m[1], norm_model_obs(m[2]), norm_model_obs(m[3]), norm_model_obs(m[4])
    run.corr("history.state", case, dev_norm(obs_of(td)) if any(o[0] == "reduce" for o in case["ops"]) else obs_of(td),
             dev_norm(m_obs) if any(o[0] == "reduce" for o in case["ops"]) else m_obs)
    consolidated = getattr(td, "_consolidated", None) is not None
    run.corr("history.has_snapshot", case, consolidated, m_fresh != "nosnap")
    if consolidated:
        cons = td._consolidated
        impl_lay = [[[m_[0], m_[1], m_[2], m_[3]] for m_ in sorted(flat_meta(cons["metadata"]), key=lambda m_: (m_[3][0], m_[3][1], m_[0]))], list(cons["storage"].tolist())]
        model_lay = [sorted([[list(x[0]), x[1], list(x[2]), list(x[3])] for x in m_lay[0]], key=lambda m_: (m_[3][0], m_[3][1], m_[0])), list(m_lay[1])]
        run.corr("history.snapshot(layout, storage)", case, impl_lay, model_lay)
        if is_current is not None:
            run.corr("history.freshness", case, "fresh" if is_current(td, cons) else "stale", m_fresh)
    in_file = any(o[0] == "consolidate" and len(o) > 1 and o[1] is True for o in case["ops"])
    for how in ("pickle", "deepcopy", "torch.save"):
        if how == "torch.save" and in_file:
            # a tensordict consolidated in a file: torch.save of it once it is stale writes a record torch.load refuses (recorded finding
            # C11-torch-save-stale-file-consolidated, probed in c11_trips); the histories use torch.save on in-memory consolidations only
            continue
        try:
            with time_limit(120):
                r = pickle.loads(pickle.dumps(td)) if how == "pickle" else copy.deepcopy(td) if how == "deepcopy" else torch_trip(td)
            got = by_path(obs_of(r))
            if td.is_locked:
                # "including lock state": the copy behaves locked (a sub-tensordict cannot be unlocked on its own, nothing can be added)
                acc = lock_behaviour(r)
                if acc:
                    run.oracle_fail("pickle_equals_now", case, f"{how}: the copy reports is_locked but accepts: {', '.join(acc)}", f"{how}:lock-behaviour")
        except TimeoutError as e:
            raise Infra(f"{how} timed out: {e}")
        except Exception as e:  # noqa: BLE001
            if how == "torch.save" and TORCH_SAVE_REFUSAL in str(e):
                # torch's own restriction (any container of such tensors is refused): a stale consolidated tensordict is pickled entry by
                # entry, and its entries are views of one uint8 storage under several dtypes. Outside what torch.save can carry.
                run.count("torch.save.refused_by_torch", "views of one storage under several dtypes")
                continue
            got = ["err", f"{type(e).__name__}: {str(e)[:120]}"]
        run.corr(f"history.{how}(reduceFixed)", case, dev_norm(got) if got[0] != "err" else got, dev_norm(by_path(m_fixed)))
        now = by_path(obs_of(td))
        if got == now:
            run.oracle_ok("pickle_equals_now")
        elif got[0] != "err" and dev_norm(got) == dev_norm(now):
            # only the device of a file-consolidated tensordict (cpu) vs its metadata (None) differs
            run.oracle_fail("pickle_equals_now", case, f"{how}: device of the rebuilt tensordict differs (file-consolidated: cpu vs None)", f"{how}:file-consolidated:device-none-vs-cpu")
        else:
            from c11_canon import first_diff
            run.oracle_fail("pickle_equals_now", case, f"{how} returned a tensordict that differs from the one serialised: {first_diff(now, got)}; snapshot was {m_fresh}", f"{how}:{m_fresh}")
    # `.to(device)` of a consolidated tensordict takes a fast path that re-views every entry over the (cast) storage
    # (base.py:_to_consolidated, listed with consolidate / from_consolidated among the mechanisms of this property):
    # it must give the tensordict as it is now, whatever happened since consolidation
    if consolidated:
        try:
            with time_limit(120):
                moved = td.to("cpu")
            got = by_path(obs_of(moved))
        except TimeoutError as e:
            raise Infra(f"to() timed out: {e}")
        except Exception as e:  # noqa: BLE001
            got = ["err", f"{type(e).__name__}: {str(e)[:120]}"]
        now = by_path(obs_of(td))
        # keys, dtypes, shapes, bytes, batch sizes and names (device changes by definition; the lock state of the result of
        # `to` is not part of this property)
        if got[0] != "err" and got[1] == now[1] and [n[:3] for n in got[0]] == [n[:3] for n in now[0]]:
            run.oracle_ok("to_device_equals_now")
        else:
            from c11_canon import first_diff
            run.oracle_fail("to_device_equals_now", case, f"to('cpu') of the consolidated tensordict differs from it: {first_diff(now, got)}; snapshot was {m_fresh}", f"to:{m_fresh}")
    return m_fresh


def tensor_from(dtype_name, shape, bs):
    from tensordict.utils import _STRDTYPE2DTYPE
    dt = _STRDTYPE2DTYPE[dtype_name]
    if not bs:
        return torch.zeros(shape, dtype=dt)
    raw = torch.tensor(bs, dtype=torch.uint8)
    if dt == torch.bool:
        return raw.to(torch.bool).reshape(shape)
    return raw.view(dt).reshape(shape).clone()


def echo(x):
    """run in a worker process: what arrived is sent back (two trips through the reducer)"""
    return x


def replay_histories(run, drv, cases, scratch):
    """re-run recorded histories (corpus entries or the failures of a replay file)"""
    from tensordict import TensorDict
    import tensordict._reductions as R
    is_current = getattr(R, "_consolidated_is_current", None)
    n = 0
    for ci, c in enumerate(cases):
        if not (isinstance(c, dict) and "ops" in c and "entries" in c and "nodes" in c):
            continue
        n += 1
        root = [x for x in c["nodes"] if x[0] == []][0]
        td = TensorDict({}, batch_size=root[1], device=root[3], names=root[2])
        node_meta = {tuple(x[0]): x for x in c["nodes"]}
        for path, dt, _isz, shape, bs in c["entries"]:
            # sub-tensordicts are created when their first leaf arrives: same key order as in the original construction
            for depth in range(1, len(path)):
                pre = tuple(path[:depth])
                if pre not in td.keys(True):
                    nm = node_meta[pre]
                    td[pre] = TensorDict({}, batch_size=nm[1], device=nm[3], names=nm[2])
            td[tuple(path)] = tensor_from(dt, shape, bs)
        for x in c["nodes"]:
            for k_, payload in (x[5] if len(x) > 5 else []):
                (td if not x[0] else td[tuple(x[0])]).set_non_tensor(k_, str(payload).split(":")[0])
        consolidated = False
        for op in c["ops"]:
            kind = op[0]
            if kind == "consolidate":
                kw = {"filename": scratch / f"replay{ci}.mmap"} if op[1] else {}
                td = td.consolidate(**kw)
                consolidated = True
            elif kind == "set":
                td[tuple(op[1])] = tensor_from(op[2], op[4], op[5])
            elif kind == "del":
                del td[tuple(op[1])]
            elif kind == "inplace":
                t = td[tuple(op[1])]
                t.copy_(tensor_from(str(t.dtype), list(t.shape), op[2]))
            elif kind == "lock":
                td.lock_()
            elif kind == "unlock":
                td.unlock_()
            elif kind == "names":
                td.names = op[1]
            elif kind == "rename":
                td.rename_key_(tuple(op[1]), tuple(op[2]))
            elif kind == "reduce":
                td = copy.deepcopy(td) if op[1] == "deepcopy" else torch_trip(td) if op[1] == "torch.save" else pickle.loads(pickle.dumps(td))
                if op[1] in ("fork", "spawn"):
                    td = pickle.loads(pickle.dumps(td))
            elif kind == "setnt":
                tgt = td if not op[1] else td[tuple(op[1])]
                tgt.set_non_tensor(op[2], str(op[3]).split(":")[0])
            elif kind == "delnt":
                del (td if not op[1] else td[tuple(op[1])])[op[2]]
            elif kind == "swap":
                va, vb = td[tuple(op[1])], td[tuple(op[2])]
                td[tuple(op[1])] = vb
                td[tuple(op[2])] = va
            elif kind == "assign":
                v = td[tuple(op[2])]
                td[tuple(op[1])] = v.clone() if op[3] else v
        m = parse_sx(drv.ask(sx("c11.history", c["nodes"], c["entries"], expand_ops(c["ops"]))))
        run.case(("history-replay", ci))
        compare_history(run, m, td, c, consolidated, is_current)
    return n


def run_histories(run, drv):
    from tensordict import TensorDict
    import tensordict._reductions as R
    rng = run.rng
    quick = run.tier == "quick"
    n_hist = 400 if quick else 2500
    scratch = BUILD / "tmp" / f"c11_{run.seed}_{run.tier}"
    shutil.rmtree(scratch, ignore_errors=True)
    scratch.mkdir(parents=True, exist_ok=True)
    is_current = getattr(R, "_consolidated_is_current", None)
    reqs, metas = [], []
    import torch.multiprocessing as mp
    pools = {"fork": mp.get_context("fork").Pool(1)}
    if not quick:
        pools["spawn"] = mp.get_context("spawn").Pool(1)
    try:
        for h in range(n_hist):
            b = rng.choice([[2], [3], [2, 2]])
            device = rng.choice([None, None, "cpu"])
            names = rng.choice([None, None, ["t", "u"][: len(b)]])
            struct = gen_struct(rng, b, DT_HIST, twins=True)
            td = build_td(struct, rng, b, device, names, nontensors=True)
            init_nodes = nodes_of(td)
            init_entries = [leaf_sx(tuple(l[0]), td[tuple(l[0])]) for l in obs_of(td)[1]]
            ops_sx = []
            locked = False
            consolidated = False
            fresh_names = (f"k{i}" for i in itertools.count(1))   # unbounded: long histories rename / add many keys
            n_ops = rng.randint(1, 7)
            cons_at = rng.randrange(n_ops) if rng.random() < 0.85 else None
            kinds_used = []
            aborted = False
            slots = set()     # the keys bound to a view of the consolidated storage (python-side bookkeeping for `assign`)
            aliased = False   # two keys share one view (after `assign`): no trip through the reducer afterwards (the model would un-share them)
            reduced = False
            for step in range(n_ops):
                paths = [tuple(l[0]) for l in obs_of(td)[1]]
                if step == cons_at:
                    file = rng.random() < 0.3
                    if locked and file:
                        file = False
                    nt = rng.choice([0, 1, 4])
                    kw = dict(num_threads=nt, metadata=rng.random() < 0.5)
                    if file:
                        kw["filename"] = scratch / f"h{h}.mmap"
                    try:
                        with time_limit(120):
                            td = td.consolidate(**kw)
                    except TimeoutError as e:
                        raise Infra(f"consolidate timed out: {e}")
                    except Exception as e:  # noqa: BLE001
                        run.oracle_fail("consolidate_roundtrip", {"struct": str(struct), "ops": ops_sx, "kw": str(kw)},
                                        f"consolidate raised {type(e).__name__}: {str(e)[:120]}", "consolidate:raise:" + type(e).__name__)
                        aborted = True
                        break
                    if not consolidated:
                        ops_sx.append(["consolidate", file])
                    else:
                        ops_sx.append(["consolidate", file])
                    if not consolidated:
                        slots = set(paths)
                    consolidated = True
                    kinds_used.append("consolidate-file" if file else "consolidate")
                    continue
                choices = ["inplace", "inplace", "lock" if not locked else "unlock", "names"]
                # (entries without elements point to no data: the library compares neither their address nor — offsets being equal —
                #  their position, the model does; a trip through the reducer in the middle of a history is drawn without them)
                if not aliased and all(td[p_].numel() > 0 for p_ in paths):
                    choices += ["reduce"]
                if not locked:
                    choices += ["set_new", "set_new", "replace", "del", "rename", "set_nested", "swap", "swap", "swap_rename", "setnt", "delnt"] + ([] if reduced else ["assign"])
                kind = rng.choice(choices)
                if kind == "reduce":
                    # the history goes on with the pickled / deep-copied tensordict, or with the one that came back from another process
                    how = rng.choice(["pickle", "deepcopy", "fork"] + (["spawn"] if "spawn" in pools else [])
                                     + ([] if any(o[0] == "consolidate" and len(o) > 1 and o[1] is True for o in ops_sx) else ["torch.save"]))
                    try:
                        with time_limit(120):
                            if how == "pickle":
                                td = pickle.loads(pickle.dumps(td))
                            elif how == "deepcopy":
                                td = copy.deepcopy(td)
                            elif how == "torch.save":
                                try:
                                    td = torch_trip(td)
                                except RuntimeError as e_:
                                    if TORCH_SAVE_REFUSAL not in str(e_):
                                        raise
                                    how = "pickle"
                                    td = pickle.loads(pickle.dumps(td))
                            else:
                                td = pools[how].apply(echo, (td,))
                    except TimeoutError as e:
                        raise Infra(f"{how} timed out: {e}")
                    except Exception as e:  # noqa: BLE001
                        # the storage of a tensordict consolidated in a file is a `torch.from_file(shared=True)` tensor
                        st_ = (getattr(td, "_consolidated", None) or {}).get("storage")
                        in_file = any(o[0] == "consolidate" and o[1] for o in ops_sx) and st_ is not None
                        run.oracle_fail("pickle_equals_now", {"struct": str(struct), "ops": ops_sx, "how": how},
                                        f"{how} raised {type(e).__name__}: {str(e)[:120]}",
                                        f"{how}:raise:" + type(e).__name__ + (":file-consolidated" if in_file else ""))
                        aborted = True
                        break
                    ops_sx.append(["reduce", how])
                    reduced = True
                    kinds_used.append("reduce-" + how)
                    continue
                if kind == "inplace" and paths:
                    p = rng.choice(paths)
                    t = td[p]
                    if t.numel() == 0:
                        continue
                    new = mk_tensor(rng, t.dtype, list(t.shape), rng.randint(1, 20))
                    how = rng.choice(["copy_", "set_", "update_"])
                    if how == "copy_":
                        t.copy_(new)
                    elif how == "set_":
                        td.set_(p, new)
                    else:
                        td.update_({p[0]: new} if len(p) == 1 else {p[0]: {p[1]: new}})
                    ops_sx.append(["inplace", list(p), sx_bytes(td[p])])
                elif kind == "lock":
                    td.lock_()
                    locked = True
                    ops_sx.append(["lock"])
                elif kind == "unlock":
                    td.unlock_()
                    locked = False
                    ops_sx.append(["unlock"])
                elif kind == "names":
                    nm = rng.choice([None, ["p", "q"][: len(b)], ["t", "u"][: len(b)]])
                    if locked:
                        continue
                    td.names = nm
                    ops_sx.append(["names", nm])
                elif kind in ("set_new", "set_nested"):
                    k = next(fresh_names)
                    has_n = any(len(p) == 2 for p in paths)
                    p = ("n", k) if (kind == "set_nested" and has_n) else (k,)
                    t = mk_tensor(rng, rng.choice(DT_HIST), b + rng.choice([[], [2], [0]]), rng.randint(0, 9))
                    td[p] = t
                    ops_sx.append(["set"] + leaf_sx(p, t))
                elif kind in ("swap", "swap_rename", "assign") and len(paths) >= 2:
                    # exchange two entries / bind a key to another entry's tensor; entries without elements are left out
                    # (they point to no data: the library does not look at their address, the model does)
                    live = [p for p in paths if td[p].numel() > 0]
                    twins_ = [(p, q) for p in live for q in live if p != q and td[p].dtype == td[q].dtype and td[p].shape == td[q].shape]
                    if len(live) < 2:
                        continue
                    p, q = rng.choice(twins_) if (twins_ and rng.random() < 0.8) else tuple(rng.sample(live, 2))
                    if kind == "swap":
                        vp, vq = td[p], td[q]
                        td[p] = vq
                        td[q] = vp
                        ops_sx.append(["swap", list(p), list(q)])
                        inp, inq = p in slots, q in slots
                        slots.discard(p); slots.discard(q)
                        if inq:
                            slots.add(p)
                        if inp:
                            slots.add(q)
                    elif kind == "swap_rename":
                        # the same exchange by three renames through a temporary key; a nested node never runs empty
                        # (the model does not track the position of an empty node)
                        if len(p) != len(q) and sum(1 for r in paths if len(r) == 2) < 2:
                            continue
                        tmp = p[:-1] + (next(fresh_names),)
                        for a_, b_ in ((p, tmp), (q, p), (tmp, q)):
                            td.rename_key_(a_, b_)
                            ops_sx.append(["rename", list(a_), list(b_)])
                        inp, inq = p in slots, q in slots
                        slots.discard(p); slots.discard(q)
                        if inq:
                            slots.add(p)
                        if inp:
                            slots.add(q)
                    else:
                        dst = rng.choice([p, p, (next(fresh_names),)])
                        # a view of the consolidated storage is bound as it is (two keys then share the memory, in the model
                        # the slot); memory of its own is copied (the model does not share `own` memory between entries)
                        cl = q not in slots
                        v = td[q]
                        aliased = aliased or not cl
                        td[dst] = v.clone() if cl else v
                        ops_sx.append(["assign", list(dst), list(q), cl])
                        slots.discard(dst)
                        if not cl:
                            slots.add(dst)
                elif kind == "setnt":
                    from tensordict import NonTensorData
                    node = () if ("n" not in td.keys() or rng.random() < 0.6) else ("n",)
                    tgt = td if not node else td["n"]
                    have = [k_ for k_, v_ in tgt.items() if isinstance(v_, NonTensorData)]
                    k_ = rng.choice(have + [next(fresh_names)]) if have else next(fresh_names)
                    tgt.set_non_tensor(k_, rng.choice(["hello", "x", "pay"]))
                    ops_sx.append(["setnt", list(node), k_, nt_atom(tgt.get(k_))])
                    del tgt     # (no second handle on the tensordict: a consolidated copy shares its non-tensor entries with a live, locked source)
                elif kind == "delnt":
                    from tensordict import NonTensorData
                    cands = [(node, k_) for node in ((), ("n",)) if (not node or "n" in td.keys()) for k_, v_ in (td if not node else td["n"]).items() if isinstance(v_, NonTensorData)]
                    if not cands:
                        continue
                    node, k_ = rng.choice(cands)
                    del (td if not node else td["n"])[k_]
                    ops_sx.append(["delnt", list(node), k_])
                elif kind == "replace" and paths:
                    p = rng.choice(paths)
                    old = td[p]
                    if old.numel() == 0:
                        continue   # a 0-element leaf replaced by a 0-element leaf is not observable (the library keeps the snapshot, the model drops it)
                    t = mk_tensor(rng, rng.choice([old.dtype, rng.choice(DT_HIST)]), list(old.shape), rng.randint(1, 20))
                    td[p] = t
                    slots.discard(p)
                    ops_sx.append(["set"] + leaf_sx(p, t))
                elif kind == "del" and len(paths) > 1:
                    p = rng.choice(paths)
                    # keep at least one leaf in a nested node (the model does not track empty nodes' position)
                    if len(p) == 2 and sum(1 for q in paths if len(q) == 2) == 1:
                        continue
                    del td[p]
                    slots.discard(p)
                    ops_sx.append(["del", list(p)])
                elif kind == "rename" and paths:
                    p = rng.choice(paths)
                    k = next(fresh_names)
                    q = p[:-1] + (k,)
                    td.rename_key_(p, q)
                    if p in slots:
                        slots.discard(p)
                        slots.add(q)
                    ops_sx.append(["rename", list(p), list(q)])
                else:
                    continue
                kinds_used.append(kind)
            if aborted:
                continue
            reqs.append(sx("c11.history", init_nodes, init_entries, expand_ops(ops_sx)))
            metas.append((len(reqs) - 1, td, ops_sx, kinds_used, consolidated, init_nodes, init_entries))
        answers = [parse_sx(a) for a in ask_batched(drv, reqs, 20)]
        for (h, td, ops_sx, kinds_used, consolidated, init_nodes, init_entries), m in zip(metas, answers):
            run.case(("history", h, str(ops_sx)[:400]), nontrivial=len(ops_sx) > 1)
            for k in kinds_used:
                run.count("history.op", k)
            case = {"ops": ops_sx, "nodes": init_nodes, "entries": init_entries}
            m_fresh = compare_history(run, m, td, case, consolidated, is_current)
            run.count("history.snapshot", m_fresh)
            if h < 3:
                run.sample({"stream": "history", "ops": ops_sx, "model_fresh": m_fresh})
    finally:
        for p_ in pools.values():
            p_.terminate()
            p_.join()
        shutil.rmtree(scratch, ignore_errors=True)
