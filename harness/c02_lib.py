"""C02 helpers: structured inputs, the implementation runner, canonical forms, the torch oracle.

A *tree spec* is ('node', bs, names|None, [(key, spec), ...]) or ('leaf', shape).
Leaves are provenance tensors (arange over the full shape): the values of a result are the flat
source offsets, so comparing values compares coordinate maps exactly (integers only).
"""
from __future__ import annotations

import itertools
import math

import torch

from common import err_class, sx, time_limit

DIMS = (0, 1, 2, 3)
NAME_POOL = ["a", "b", "c", "d", "e", "f", "g"]


def numel(shape):
    return math.prod(shape)


# --------------------------------------------------------------------------- specs
def leaf(shape):
    return ("leaf", tuple(shape))


def node(bs, names, entries):
    return ("node", tuple(bs), None if names is None else tuple(names), list(entries))


def spec_sx(spec) -> str:
    if spec[0] == "leaf":
        return sx("leaf", list(spec[1]))
    _, bs, names, entries = spec
    parts = ["node", "(" + " ".join(map(str, bs)) + ")",
             "none" if names is None else "(" + " ".join("none" if n is None else n for n in names) + ")"]
    for k, e in entries:
        parts.append(f"({k} {spec_sx(e)})")
    return "(" + " ".join(parts) + ")"


def build(spec):
    """real TensorDict for a node spec"""
    from tensordict import TensorDict
    _, bs, names, entries = spec
    src = {}
    for k, e in entries:
        if e[0] == "leaf":
            src[k] = torch.arange(numel(e[1]), dtype=torch.int64).reshape(e[1])
        else:
            src[k] = build(e)
    return TensorDict(src, batch_size=list(bs), names=None if names is None else list(names))


def has_validating_leaf(spec, n=None) -> bool:
    """some tensor leaf (any depth) whose trailing (non-batch) part has numel != 0 — torch itself
    then re-checks the sizes of view/reshape/... on that leaf"""
    _, bs, _, entries = spec
    n = len(bs) if n is None else n
    for _, e in entries:
        if e[0] == "leaf":
            if numel(e[1][n:]) != 0:
                return True
        elif has_validating_leaf(e, n):
            return True
    return False


def spec_keys(spec, prefix=()):
    out = []
    for k, e in spec[3]:
        out.append(prefix + (k,))
        if e[0] == "node":
            out += spec_keys(e, prefix + (k,))
    return sorted(out)


def gen_tree(rng, bs, named, nested=True, allow_empty=True):
    """a node over batch `bs`: 0-3 leaves with 0-2 feature dims, optionally one nested node with a longer batch"""
    bs = tuple(bs)
    names = None
    if named and bs:
        pool = rng.sample(NAME_POOL, len(bs))
        names = [p if rng.random() < 0.75 else None for p in pool]
        if all(n is None for n in names):
            names[rng.randrange(len(bs))] = pool[0]
    entries = []
    nleaf = rng.choice([0, 1, 1, 2, 2, 3]) if allow_empty else rng.choice([1, 2, 3])
    for i in range(nleaf):
        fr = rng.choice([0, 0, 1, 1, 2])
        feat = tuple(rng.choice([1, 2, 2, 3, 0] if rng.random() < 0.15 else [1, 2, 3]) for _ in range(fr))
        entries.append((f"x{i}", leaf(bs + feat)))
    if nested and rng.random() < 0.55:
        ext = tuple(rng.choice([1, 2, 3]) for _ in range(rng.choice([1, 1, 2])))
        nbs = bs + ext
        nnames = None
        if names is not None:
            # a named parent refines the names of its children: the child must carry compatible names
            extra = [n for n in NAME_POOL if n not in names][: len(ext)]
            nnames = list(names) + [e if rng.random() < 0.6 else None for e in extra]
        sub = []
        for i in range(rng.choice([0, 1, 1, 2])):
            fr = rng.choice([0, 1])
            feat = tuple(rng.choice([1, 2, 3]) for _ in range(fr))
            sub.append((f"y{i}", leaf(nbs + feat)))
        if rng.random() < 0.25:
            # a second level: a tensordict nested in the nested one, its batch longer again (or equal)
            ext2 = tuple(rng.choice([1, 2]) for _ in range(rng.choice([0, 1])))
            n2 = nbs + ext2
            nn2 = None
            if nnames is not None:
                extra2 = [n for n in NAME_POOL if n not in nnames][: len(ext2)]
                nn2 = list(nnames) + [e if rng.random() < 0.6 else None for e in extra2]
            sub2 = [(f"z{i}", leaf(n2 + tuple(rng.choice([1, 2]) for _ in range(rng.choice([0, 1]))))) for i in range(rng.choice([0, 1, 1]))]
            sub.insert(rng.randrange(len(sub) + 1), ("m", node(n2, nn2, sub2)))
        pos = rng.randrange(len(entries) + 1)
        entries.insert(pos, ("n", node(nbs, nnames, sub)))
    return node(bs, names, entries)


def all_shapes(max_rank):
    out = [()]
    for r in range(1, max_rank + 1):
        out += list(itertools.product(DIMS, repeat=r))
    return out


# --------------------------------------------------------------------------- ops
SINGLE = ("permute", "transpose", "squeeze", "unsqueeze", "flatten", "unflatten", "view", "reshape", "expand")
MULTI = ("unbind", "split", "splitlist", "chunk")


def op_sx(op) -> str:
    name = op[0]
    if name in ("permute", "view", "reshape", "expand"):
        return sx(name, list(op[1]))
    if name == "unflatten":
        return sx(name, op[1], list(op[2]))
    if name == "splitlist":
        return sx(name, list(op[1]), op[2])
    return sx(name, *op[1:])


def divisor_shapes(n, rng, k):
    """a random factorisation-ish target shape of total n with k entries"""
    if k == 0:
        return ()
    out = []
    rem = n
    for _ in range(k - 1):
        ds = [d for d in range(0, 7) if (d != 0 and rem % d == 0) or (d == 0 and rem == 0)]
        d = rng.choice(ds) if ds else 1
        out.append(d)
        rem = rem // d if d else 0
    out.append(rem)
    rng.shuffle(out)
    return tuple(out)


def gen_op(rng, bs, malformed=False):
    """one op with arguments for batch shape `bs`; mostly valid, `malformed` widens every range"""
    n = len(bs)
    name = rng.choice(SINGLE + MULTI)
    lo, hi = (-n - 2, n + 2) if malformed else (-n, max(n - 1, 0))

    def dim():
        return rng.randint(lo, hi) if (malformed or n) else rng.choice([0, -1])
    if name == "permute":
        p = list(range(n))
        rng.shuffle(p)
        p = [d - n if rng.random() < 0.3 else d for d in p]
        if malformed:
            r = rng.random()
            if r < 0.3 and p:
                p[rng.randrange(len(p))] = rng.randint(-n - 1, n + 1)
            elif r < 0.5:
                p = p[:-1] if p else [0]
            elif r < 0.6:
                p = p + [n]
        return ("permute", tuple(p))
    if name == "transpose":
        return ("transpose", dim(), dim())
    if name == "squeeze":
        if rng.random() < 0.35:
            return ("squeeze", None)
        ones = [i for i, d in enumerate(bs) if d == 1]
        if ones and rng.random() < 0.6:
            i = rng.choice(ones)
            return ("squeeze", i - n if rng.random() < 0.4 else i)
        return ("squeeze", dim())
    if name == "unsqueeze":
        return ("unsqueeze", rng.randint(-n - 1 - (2 if malformed else 0), n + (2 if malformed else 0)))
    if name == "flatten":
        if not malformed and n >= 2:
            a = rng.randrange(0, n - 1)
            b = rng.randrange(a + 1, n)
            return ("flatten", a - n if rng.random() < 0.3 else a, b - n if rng.random() < 0.4 else b)
        return ("flatten", dim(), dim())
    if name == "unflatten":
        d = dim()
        dd = d + n if d < 0 else d
        size = bs[dd] if 0 <= dd < n else rng.choice(DIMS)
        k = rng.choice([1, 2, 2, 3])
        sizes = list(divisor_shapes(size, rng, k))
        r = rng.random()
        if r < 0.35 and sizes:
            sizes[rng.randrange(len(sizes))] = -1
        if malformed:
            r = rng.random()
            if r < 0.2:
                sizes = []
            elif r < 0.5 and sizes:
                sizes[rng.randrange(len(sizes))] = rng.choice([-2, -1, 0, 1, 2, 3, 4])
        return ("unflatten", d, tuple(sizes))
    if name in ("view", "reshape"):
        k = rng.choice([0, 1, 1, 2, 2, 3])
        shape = list(divisor_shapes(numel(bs), rng, k)) if k else []
        if rng.random() < 0.15:
            shape = list(bs)
        if shape and rng.random() < 0.35:
            shape[rng.randrange(len(shape))] = -1
        if malformed and shape:
            shape[rng.randrange(len(shape))] = rng.choice([-2, -1, 0, 1, 2, 3, 4, 6])
        return (name, tuple(shape))
    if name == "expand":
        lead = rng.choice([0, 0, 1, 2])
        shape = [rng.choice([0, 1, 2, 3]) for _ in range(lead)]
        for d in bs:
            r = rng.random()
            shape.append(d if r < 0.6 else (-1 if r < 0.8 else (rng.choice([0, 2, 3]) if d == 1 else d)))
        if malformed:
            r = rng.random()
            if r < 0.3 and shape:
                shape[rng.randrange(len(shape))] = rng.choice([-2, -1, 0, 1, 2, 3])
            elif r < 0.45 and shape:
                shape = shape[1:]
        return ("expand", tuple(shape))
    if name == "unbind":
        return ("unbind", dim())
    if name == "split":
        d = dim()
        return ("split", rng.randint(-1 if malformed else 1, 5), d)
    if name == "splitlist":
        d = dim()
        dd = d + n if d < 0 else d
        size = bs[dd] if 0 <= dd < n else rng.choice(DIMS)
        k = rng.choice([1, 2, 2, 3])
        cuts = sorted(rng.randint(0, size) for _ in range(k - 1))
        sizes = [b - a for a, b in zip([0] + cuts, cuts + [size])]
        if malformed:
            r = rng.random()
            if r < 0.2:
                sizes = []
            elif sizes:
                sizes[rng.randrange(len(sizes))] += rng.choice([-2, -1, 1, 2])
        return ("splitlist", tuple(sizes), d)
    if name == "chunk":
        return ("chunk", rng.randint(-1 if malformed else 1, 5), dim())
    raise AssertionError(name)


def call(obj, op, spelling=0):
    """apply `op` to a tensordict (or to a torch tensor: same method names)."""
    name = op[0]
    is_t = isinstance(obj, torch.Tensor)
    if spelling == 3:
        # the torch-function spelling (tensordict/_torch_func.py registers these); ops without one fall through to the method
        if name == "permute" and op[1]:
            return torch.permute(obj, tuple(op[1]))
        if name == "transpose":
            return torch.transpose(obj, op[1], op[2])
        if name == "squeeze" and op[1] is not None:
            return torch.squeeze(obj, op[1])
        if name == "unsqueeze":
            return torch.unsqueeze(obj, op[1])
        if name == "flatten":
            return torch.flatten(obj, op[1], op[2])
        if name == "unflatten":
            return torch.unflatten(obj, op[1], tuple(op[2]))
        if name == "unbind":
            return torch.unbind(obj, op[1])
        if name == "split":
            return torch.split(obj, op[1], op[2])
        if name == "splitlist":
            return torch.split(obj, list(op[1]), op[2])
    if spelling == 4 and not is_t:
        # keyword spelling of the method (tensordict parameter names)
        if name == "transpose":
            return obj.transpose(dim0=op[1], dim1=op[2])
        if name == "flatten":
            return obj.flatten(start_dim=op[1], end_dim=op[2])
        if name == "unflatten":
            return obj.unflatten(dim=op[1], unflattened_size=tuple(op[2]))
        if name == "unbind":
            return obj.unbind(dim=op[1])
        if name == "split":
            return obj.split(split_size=op[1], dim=op[2])
        if name == "splitlist":
            return obj.split(split_size=list(op[1]), dim=op[2])
        if name == "chunk":
            return obj.chunk(chunks=op[1], dim=op[2])
        if name == "view" and op[1]:
            return obj.view(size=tuple(op[1]))
        if name == "expand" and op[1]:
            # expand_as: the target only contributes its shape
            if all(d >= 0 for d in op[1]):
                return obj.expand_as(torch.empty(tuple(op[1])))
    if spelling == 5 and not is_t:
        # defaulted arguments
        if name == "flatten" and op[2] == -1:
            return obj.flatten(op[1]) if op[1] != 0 else obj.flatten()
        if name in ("split", "splitlist", "chunk") and op[2] == 0:
            return getattr(obj, "chunk" if name == "chunk" else "split")(list(op[1]) if name == "splitlist" else op[1])
    if name == "permute":
        if spelling == 1 or not op[1]:
            return obj.permute(list(op[1]))
        if spelling == 2 and not isinstance(obj, torch.Tensor):
            return obj.permute(dims=list(op[1]))
        return obj.permute(*op[1])
    if name == "transpose":
        return obj.transpose(op[1], op[2])
    if name == "squeeze":
        return obj.squeeze() if op[1] is None else (obj.squeeze(dim=op[1]) if spelling == 1 else obj.squeeze(op[1]))
    if name == "unsqueeze":
        return obj.unsqueeze(dim=op[1]) if spelling == 1 else obj.unsqueeze(op[1])
    if name == "flatten":
        return obj.flatten(op[1], op[2])
    if name == "unflatten":
        return obj.unflatten(op[1], tuple(op[2]) if spelling != 1 else list(op[2]))
    if name in ("view", "reshape", "expand"):
        f = getattr(obj, name)
        if spelling == 1 or not op[1]:
            return f(tuple(op[1]))
        if spelling == 2:
            return f(torch.Size(op[1])) if all(d >= 0 for d in op[1]) else f(list(op[1]))
        return f(*op[1])
    if name == "unbind":
        return obj.unbind(op[1])
    if name == "split":
        return obj.split(op[1], op[2])
    if name == "splitlist":
        return obj.split(list(op[1]), op[2])
    if name == "chunk":
        return obj.chunk(op[1], op[2])
    raise AssertionError(name)


# --------------------------------------------------------------------------- canonical forms
def canon(td):
    """['node', bs, names, [key, sub]...] / ['leaf', shape, flat] — same shape as parse_sx(model answer)"""
    if isinstance(td, torch.Tensor):
        return ["leaf", list(td.shape), td.reshape(-1).tolist()]
    out = ["node", list(td.batch_size), ["none" if n is None else n for n in td.names]]
    for k, v in td.items():
        out.append([k, canon(v)])
    return out


_CONFIRMED_TIMEOUTS = [0]


def slow_is_infra(e):
    """outside `run_impl` (the only place where non-termination is a verdict: confirmed with a 120 s retry, the historical split(0)
    defect) an implementation call that exceeds its generous limit says something about the BOX, not about the property: exit 2"""
    if isinstance(e, TimeoutError):
        from common import Infra
        raise Infra(f"an implementation call did not finish within its time limit on this box: {e}")



def run_impl(td, op, spelling=0, limit=5.0):
    """(answer in the model's canonical form, raw result or exception).
    A timeout is only believed after a retry with a 24x longer limit (120 s) (a loaded box must not produce a VIOLATION);
    after three confirmed non-terminations the retry is skipped (the violation is established, keep the run short)."""
    try:
        try:
            with time_limit(limit):
                r = call(td, op, spelling)
        except TimeoutError:
            if _CONFIRMED_TIMEOUTS[0] >= 3:
                raise
            with time_limit(limit * 24):
                r = call(td, op, spelling)
    except TimeoutError as e:
        _CONFIRMED_TIMEOUTS[0] += 1
        return ["err", "timeout"], e
    except Exception as e:  # noqa: BLE001
        return ["err", err_class(e)], e
    if r is td:
        return ["self"], r
    if isinstance(r, (tuple, list)):
        return ["oks"] + [canon(x) for x in r], r
    return ["ok", canon(r)], r


def run_impl_tc(spec, op, spelling=0, lock=False):
    """the same call on a TENSORCLASS holding the same tree, in the model's canonical form (a tensorclass delegates to the TensorDict
    code, so the dense model is its model too); an expired limit is Infra here, never a verdict"""
    cont = tc_class()._from_tensordict(build(spec))
    if lock:
        cont.lock_()
    try:
        with time_limit(60.0):
            r = call(cont, op, spelling)
    except Exception as e:  # noqa: BLE001
        slow_is_infra(e)
        return ["err", err_class(e)]
    if r is cont or getattr(r, "_tensordict", None) is cont._tensordict:
        return ["self"]       # (the tensorclass wrapper re-wraps a `return self` of the tensordict it holds)
    if isinstance(r, (tuple, list)):
        return ["oks"] + [canon(densify(x)) for x in r]
    return ["ok", canon(densify(r))]


def torch_answer(op, shape):
    """torch on an arange tensor of `shape`, in the canonical form of the `c02.torch` command"""
    t = torch.arange(numel(shape), dtype=torch.int64).reshape(shape)
    try:
        r = call(t, op)
    except Exception as e:  # noqa: BLE001
        return ["err", err_class(e)]
    rs = list(r) if isinstance(r, (tuple, list)) else [r]
    if any(d < 0 for x in rs for d in x.shape):
        return ["err", "runtime"]  # torch 2.14 returns sizes like (-1, 0) for 0-d.expand(-1, 0): not a shape
    if isinstance(r, (tuple, list)):
        return ["oks"] + [canon(x) for x in rs]
    return ["ok", canon(r)]


# --------------------------------------------------------------------------- the property oracle
def expected_names(op, bs, names):
    """names after the op by the rule 'names travel with their dims, new dims are unnamed';
    entries that the rule leaves open are returned as the wildcard '*' (None = whole list unconstrained)."""
    n = len(bs)
    names = list(names)

    def nd(d):
        return d + n if d < 0 else d
    name = op[0]
    if name == "permute":
        return [names[nd(d)] for d in op[1]]
    if name == "transpose":
        a, b = nd(op[1]), nd(op[2])
        names[a], names[b] = names[b], names[a]
        return names
    if name == "squeeze":
        if op[1] is None:
            return [nm for nm, d in zip(names, bs) if d != 1]
        d = nd(op[1])
        return names[:d] + names[d + 1:] if bs[d] == 1 else names
    if name == "unsqueeze":
        d = op[1] + n + 1 if op[1] < 0 else op[1]
        return names[:d] + [None] + names[d:]
    if name == "flatten":
        a, b = nd(op[1]), nd(op[2])
        return names[:a] + [None] + names[b + 1:]
    if name == "unflatten":
        d = nd(op[1])
        return names[:d] + ["*"] * len(op[2]) + names[d + 1:]
    if name == "expand":
        return [None] * (len(op[1]) - n) + names
    if name == "unbind":
        d = nd(op[1])
        return names[:d] + names[d + 1:]
    if name in ("split", "splitlist", "chunk"):
        return names
    return None  # view / reshape: dims are re-cut, nothing to say


def names_ok(got, want):
    if want is None:
        return True
    got = list(got)
    return len(got) == len(want) and all(w == "*" or g == w for g, w in zip(got, want))


def stricter_rejection(op, bs):
    """argument classes tensordict documents as rejected although torch accepts them
    (explicit `raise` with a message saying so); not violations of C02"""
    n = len(bs)
    name = op[0]
    if n == 0 and name in ("transpose", "squeeze", "flatten", "unflatten", "unbind", "split", "splitlist", "chunk"):
        if not (name == "squeeze" and op[1] is None):
            return "dim argument on a 0-d batch (torch wraps dims of a 0-d tensor, tensordict does not)"
    if name == "flatten":
        a = op[1] + n if op[1] < 0 else op[1]
        b = op[2] + n if op[2] < 0 else op[2]
        if a == b:
            return "flatten(start == end): 'The end dimension must be strictly greater than the start dim'"
    if name == "splitlist" and len(op[1]) == 0:
        return "split([]): 'Insufficient number of elements in split_size'"
    return None


def oracle(run, spec, td, op, impl, raw, site="shape_op", fp_prefix=""):
    """the property itself on the real code.  `impl`/`raw` come from run_impl.  Returns True if ok."""
    _, bs, names, entries = spec
    case = {"op": list(op), "td": spec_sx(spec)}
    if fp_prefix:
        case["class"] = fp_prefix.rstrip(":")
    idx = torch.arange(numel(bs), dtype=torch.int64).reshape(bs)
    try:
        ref = call(idx, op)
        refs = list(ref) if isinstance(ref, (tuple, list)) else [ref]
        if any(d < 0 for r in refs for d in r.shape):
            raise RuntimeError("torch returned a negative size")
        terr = None
    except Exception as e:  # noqa: BLE001
        terr = e
    opn = fp_prefix + op[0]
    if impl[0] == "err":
        if impl[1] == "timeout":
            run.oracle_fail(site, case, "does not terminate", f"{opn}:timeout")
            return False
        if terr is None:
            why = stricter_rejection(op, bs)
            if why is None:
                run.oracle_fail(site, case, f"tensordict raises {type(raw).__name__}: {str(raw)[:120]} but torch accepts (batch {[tuple(r.shape) for r in refs]})",
                                f"{opn}:rejects-torch-accepts:{type(raw).__name__}")
                return False
            run.count("oracle.stricter_rejection", opn)
        run.oracle_ok(site)
        return True
    if terr is not None:
        kind = "no-validating-leaf" if not has_validating_leaf(spec) else "with-leaf"
        if opn == "splitlist" and op[1] and all(s >= 0 for s in op[1]):
            dd = op[2] + len(bs) if op[2] < 0 else op[2]
            if 0 <= dd < len(bs) and sum(op[1]) > bs[dd]:
                kind = "oversize-list"
        # whatever was returned must at least be coherent (every leaf carries the result's batch size as a prefix)
        results = [td] if impl[0] == "self" else (list(raw) if isinstance(raw, (tuple, list)) else [raw])
        for r in results:
            bad = incoherent(r)
            if bad:
                run.oracle_fail(site, case, f"torch rejects the arguments and the accepted result is incoherent: {bad}", f"{opn}:accepted-incoherent")
                return False
        run.oracle_fail(site, case, f"tensordict accepts (result {impl[0]}) but torch raises {type(terr).__name__}: {str(terr)[:100]}",
                        f"{opn}:accepts-torch-rejects:{kind}")
        return False
    results = [td] if impl[0] == "self" else (list(raw) if isinstance(raw, (tuple, list)) else [raw])
    if len(results) != len(refs):
        run.oracle_fail(site, case, f"{len(results)} results, torch gives {len(refs)}", f"{opn}:count")
        return False
    want_names = expected_names(op, bs, names if names is not None else [None] * len(bs))
    n = len(bs)
    for r, ref in zip(results, refs):
        if tuple(r.batch_size) != tuple(ref.shape):
            run.oracle_fail(site, case, f"batch_size {tuple(r.batch_size)} but torch gives {tuple(ref.shape)}", f"{opn}:batch")
            return False
        if not names_ok(r.names, want_names):
            run.oracle_fail(site, case, f"names {list(r.names)} expected {want_names}", f"{opn}:names")
            return False
        got_keys = sorted(r.keys(True, False), key=lambda k: (k,) if isinstance(k, str) else k)
        got_keys = sorted((k,) if isinstance(k, str) else tuple(k) for k in got_keys)
        if got_keys != spec_keys(spec):
            run.oracle_fail(site, case, f"keys {got_keys} expected {spec_keys(spec)}", f"{opn}:keys")
            return False
        bad = check_entries(r, spec, n, ref, (), keep_names=(want_names if opn in NAME_KEEPING_OPS else None))
        if bad:
            run.oracle_fail(site, case, bad, f"{opn}:{bad.split(' ')[0]}")
            return False
    run.oracle_ok(site)
    return True


def incoherent(td):
    """C01's prefix invariant on a result (used where torch gives no reference shape)"""
    bs = tuple(td.batch_size)
    if any(d < 0 for d in bs):
        return f"negative batch size {bs}"
    for k, v in td.items():
        if isinstance(v, torch.Tensor):
            if tuple(v.shape[: len(bs)]) != bs:
                return f"leaf {k} has shape {tuple(v.shape)} under batch {bs}"
        else:
            if tuple(v.batch_size[: len(bs)]) != bs:
                return f"nested {k} has batch {tuple(v.batch_size)} under batch {bs}"
            bad = incoherent(v)
            if bad:
                return bad
    return None


# ops under which every dim keeps its identity (names travel, also in nested tensordicts); view / reshape re-cut the dims (names erased by
# design), expand is left to the correspondence
NAME_KEEPING_OPS = ("squeeze", "unsqueeze", "transpose", "permute", "flatten", "unflatten", "unbind", "split", "splitlist", "chunk")


def check_entries(r, spec, n, ref, prefix, keep_names=None, src_rank=None):
    """every leaf equals `source.reshape(numel(batch), *rest)[ref]` (the op on the batch dims, rest untouched);
    every nested node has batch `ref.shape + ext`"""
    for k, e in spec[3]:
        v = r.get(k)
        if e[0] == "leaf":
            shape = e[1]
            src = torch.arange(numel(shape), dtype=torch.int64).reshape(shape)
            rest = shape[n:]
            want = src.reshape((numel(shape[:n]),) + tuple(rest))[ref]
            if tuple(v.shape) != tuple(want.shape):
                return f"leaf-shape {prefix + (k,)}: {tuple(v.shape)} expected {tuple(want.shape)}"
            if v.dtype != want.dtype:
                return f"leaf-dtype {prefix + (k,)}: {v.dtype} expected {want.dtype}"
            if not torch.equal(v, want):
                return f"leaf-values {prefix + (k,)} differ from the op applied to the batch dims"
        else:
            ext = e[1][n:]
            if tuple(v.batch_size) != tuple(ref.shape) + tuple(ext):
                return f"nested-batch {prefix + (k,)}: {tuple(v.batch_size)} expected {tuple(ref.shape) + tuple(ext)}"
            if e[2] is not None and keep_names is not None:
                # "names travel with their dims … nested tensordicts are transformed recursively": the nested result is named like the
                # parent on the parent's dims ('*' = any) and keeps the names of its own extra dims
                sr = n if src_rank is None else src_rank          # rank of the source node `keep_names` stands for
                want = list(keep_names) + list(e[2][sr:])
                if not names_ok(list(v.names), want):
                    return f"nested-names {prefix + (k,)}: {list(v.names)} expected {want}"
            sr = n if src_rank is None else src_rank
            bad = check_entries(v, e, n, ref, prefix + (k,),
                                keep_names=(list(keep_names) + list(e[2][sr:]) if keep_names is not None and e[2] is not None else None),
                                src_rank=len(e[1]))
            if bad:
                return bad
    return None


def spec_op_keeps_trailing_names(_v):
    # view/reshape erase names by design (dims are re-cut); checked by the caller through expected_names
    return False


# --------------------------------------------------------------------------- extended ops (oracle only, not modelled)
def build_offset(spec, off):
    """like build(), every leaf shifted by `off` (distinguishes the operands of stack/cat)"""
    from tensordict import TensorDict
    _, bs, names, entries = spec
    src = {}
    for k, e in entries:
        if e[0] == "leaf":
            src[k] = torch.arange(numel(e[1]), dtype=torch.int64).reshape(e[1]) + off
        else:
            src[k] = build_offset(e, off)
    return TensorDict(src, batch_size=list(bs), names=None if names is None else list(names))


def resize_dim(spec, d, size):
    """the same tree with batch dim `d` (of every node and leaf) set to `size`"""
    if spec[0] == "leaf":
        s = list(spec[1]); s[d] = size
        return ("leaf", tuple(s))
    _, bs, names, entries = spec
    b = list(bs); b[d] = size
    return ("node", tuple(b), names, [(k, resize_dim(e, d, size)) for k, e in entries])


def insert_dim(spec, d, size):
    """the same tree with a new batch dim of `size` inserted at position d (in every node and leaf)"""
    if spec[0] == "leaf":
        sh = list(spec[1]); sh.insert(d, size)
        return ("leaf", tuple(sh))
    _, bs, names, entries = spec
    b = list(bs); b.insert(d, size)
    return ("node", tuple(b), None, [(k, insert_dim(e, d, size)) for k, e in entries])


def spec_sx_off(spec, off):
    """like spec_sx, every leaf carrying the value offset of its operand"""
    if spec[0] == "leaf":
        return "(leaf (" + " ".join(map(str, spec[1])) + f") {off})"
    _, bs, names, entries = spec
    parts = ["node", "(" + " ".join(map(str, bs)) + ")",
             "none" if names is None else "(" + " ".join("none" if n is None else n for n in names) + ")"]
    for k, e in entries:
        parts.append(f"({k} {spec_sx_off(e, off)})")
    return "(" + " ".join(parts) + ")"


def canon_sorted(td):
    """canon() with the entries of every node sorted by key (torch.stack iterates a *set* of keys)"""
    c = canon(td)

    def srt(x):
        if x[0] == "leaf":
            return x
        return x[:3] + sorted(([k, srt(v)] for k, v in x[3:]), key=lambda kv: kv[0])
    return srt(c)


def sort_parsed(x):
    if x[0] == "leaf":
        return x
    return x[:3] + sorted(([k, sort_parsed(v)] for k, v in x[3:]), key=lambda kv: kv[0])


def drop_key(spec, key):
    _, bs, names, entries = spec
    return ("node", bs, names, [(k, e) for k, e in entries if k != key])


def gen_ext(rng):
    """one case of the ops the model does not cover: (kind, specs, args)"""
    kind = rng.choice(["repeat", "repeat_interleave", "gather", "masked_select", "stack", "cat", "stack_out", "cat_out", "cat_lazy_out", "stack_lazy_out",
                       "stack_lazy_in", "stack_lazy_in", "cat_lazy_in", "stack_tc_in", "cat_tc_in"])
    wild = rng.random() < 0.2      # out-of-range dims / negative repeats
    # (repeat on a 0-d batch would be `td.repeat()` with no repeats: torch's varargs API has no such spelling)
    rank = rng.choice([0, 1, 2, 2, 3, 3, 4]) if kind in ("stack", "stack_out") else rng.choice([1, 2, 2, 3, 3, 4])
    bs = tuple(rng.choice(DIMS if rng.random() < 0.35 else (1, 2, 3)) for _ in range(rank))
    spec = gen_tree(rng, bs, named=rng.random() < 0.45, allow_empty=False)
    n = rank
    if kind == "repeat":
        reps = [rng.choice([0, 1, 1, 2, 3]) for _ in range(n)]
        if wild:
            reps[rng.randrange(n)] = -1
        return kind, [spec], (tuple(reps),)
    if kind == "repeat_interleave":
        d = rng.randint(-n - 2, n + 1) if wild else rng.randrange(-n, n)
        if not wild and rng.random() < 0.3:
            # documented: `repeats (torch.Tensor or int)`, one count per element along dim (or a single count)
            dd = d + n if d < 0 else d
            reps = torch.tensor([rng.choice([0, 1, 1, 2, 3]) for _ in range(rng.choice([bs[dd], bs[dd], 1]))], dtype=torch.int64)
            return kind, [spec], (reps, d)
        return kind, [spec], (rng.choice([-1, 0, 1, 2]) if wild else rng.choice([0, 1, 2, 3]), d if wild else rng.choice([d, d, None]))
    if kind == "gather":
        d = rng.randrange(-n, n)
        dd = d + n if d < 0 else d
        ishape = list(bs); ishape[dd] = rng.choice([0, 1, 2, 3])
        hi = bs[dd]
        if hi == 0:
            ishape[dd] = 0
        if n > 1 and rng.random() < 0.25:
            # torch.gather accepts an index that is smaller than the input outside `dim` (result = index.shape); tensordict documents
            # that only the gathering dim may differ: it must then REJECT (a singleton must not be silently broadcast)
            o = rng.choice([k for k in range(n) if k != dd])
            if bs[o] > 1:
                ishape[o] = rng.choice([1, 1, bs[o] - 1])
        index = torch.tensor([rng.randrange(hi) if hi else 0 for _ in range(numel(ishape))], dtype=torch.int64).reshape(ishape)
        return kind, [spec], (d, index)
    if kind == "masked_select":
        # a mask over the leading k batch dims (k = all of them most of the time): `x[mask]` semantics
        k = n if (n == 0 or rng.random() < 0.7) else rng.randint(1, n)
        mshape = tuple(bs[:k])
        mask = torch.tensor([rng.random() < 0.5 for _ in range(numel(mshape))], dtype=torch.bool).reshape(mshape)
        return kind, [spec], (mask,)
    k = rng.choice([1, 2, 2, 3, 4])
    if kind in ("stack", "stack_out"):
        d = rng.randint(-n - 3, n + 2) if wild else rng.randint(-n - 1, n)
        return kind, [spec] * k, (d,)
    if kind in ("stack_lazy_in", "cat_lazy_in"):
        # the OPERANDS are lazy stacks with one stack dim and one key set, their members filled in different key orders (entries of
        # different feature shapes): every dim, incl. the operands' own stack dim
        bs2 = tuple(max(x, 1) for x in bs)
        spec = gen_tree(rng, bs2, named=False, nested=rng.random() < 0.3, allow_empty=False)
        sd = rng.randrange(n)
        if kind == "stack_lazy_in":
            d = rng.randint(-n - 1, n)
            return kind, [spec] * k, (d, sd, tuple(rng.randrange(3) for _ in range(k)))
        d = rng.randrange(-n, n)
        dd = d + n if d < 0 else d
        specs = [resize_dim(spec, dd, rng.choice([1, 2, 3])) if dd != sd else spec for _ in range(k)]
        return kind, specs, (d, sd, tuple(rng.randrange(3) for _ in range(k)))
    if kind in ("stack_tc_in", "cat_tc_in"):
        # the OPERANDS are tensorclass instances, or a MIX of tensorclass instances and plain tensordicts (the first operand decides the
        # class of the result)
        pattern = tuple(rng.random() < 0.65 for _ in range(k))
        if not any(pattern):
            pattern = (True,) + pattern[1:]
        if kind == "stack_tc_in":
            d = rng.randint(-n - 1, n)
            return kind, [spec] * k, (d, pattern)
        d = rng.randrange(-n, n)
        dd = d + n if d < 0 else d
        return kind, [resize_dim(spec, dd, rng.choice([0, 1, 2, 3])) for _ in range(k)], (d, pattern)
    if kind == "stack_lazy_out":
        spec = gen_tree(rng, tuple(max(x, 1) for x in bs), named=False, nested=False, allow_empty=False)
        d = rng.randint(-n - 1, n)
        dd = d + n + 1 if d < 0 else d
        sd = rng.randrange(n + 1)
        return kind, [spec] * k, (d, sd)
    if kind == "cat_lazy_out":
        spec = strip_names(spec)
        bs2 = tuple(max(x, 1) for x in bs)
        spec = gen_tree(rng, bs2, named=False, nested=False, allow_empty=False)
        d = rng.randrange(-n, n)
        dd = d + n if d < 0 else d
        specs = [resize_dim(spec, dd, rng.choice([1, 2, 3])) for _ in range(k)]
        sd = rng.randrange(n)
        return kind, specs, (d, sd)
    d = rng.randint(-n - 2, n + 1) if wild else rng.randrange(-n, n)
    dd = d + n if d < 0 else d
    specs = [resize_dim(spec, dd % max(n, 1), rng.choice([0, 1, 2, 3])) for _ in range(k)]
    return kind, specs, (d,)


def ext_names(kind, names, n, args):
    if kind in ("repeat", "repeat_interleave", "gather", "cat", "cat_out"):
        if kind == "repeat_interleave" and args[1] is None and n > 1:
            return None
        return list(names)
    if kind in ("stack", "stack_out", "stack_lazy_out", "stack_lazy_in", "stack_tc_in"):
        d = args[0] + n + 1 if args[0] < 0 else args[0]
        return list(names[:d]) + [None] + list(names[d:])
    if kind in ("cat_lazy_out", "cat_lazy_in", "cat_tc_in"):
        return list(names)
    if kind == "masked_select":
        # the dims under the mask collapse into one unnamed dim; the remaining batch dims keep their names (as with td[mask])
        return [None] + list(names[args[0].dim():])
    return None


class ClassMismatch(Exception):
    """the result of stack / cat over tensorclass operands has the wrong class (the first operand decides)"""


def oracle_ext(run, kind, specs, args, site="shape_op_ext", container=None, rng=None, stack_dim=None, valid_call=False):
    """container in {None, 'tc', 'lazy'}: single-operand kinds on a tensorclass (delegates to the TensorDict code: same site as the
    dense ops) or on a lazy stack (own implementation in _lazy.py: a refusal is not judged, only a wrong result / non-termination)"""
    n = len(specs[0][1])
    if container is not None:
        cont, sp = build_container(specs[0], container, rng, stack_dim)
        if cont is None:
            return
        specs = [sp]
        tds = [cont]
        site = "shape_op" if container == "tc" else "shape_op_lazy"
    else:
        def rot(sp_, r):
            # operands filled in different key orders (top level and nested): stack / cat must pair the entries by KEY
            ents = [(k, (rot(e, r) if e[0] == "node" else e)) for k, e in sp_[3]]
            if ents:
                ents = ents[r % len(ents):] + ents[:r % len(ents)]
            return ("node", sp_[1], sp_[2], ents)
        multi_in = kind in ("stack", "cat", "stack_out", "cat_out")
        tds = [build_offset(rot(s, i) if multi_in else s, 100000 * i) for i, s in enumerate(specs)]
    idxs = [torch.arange(numel(s[1]), dtype=torch.int64).reshape(s[1]) for s in specs]
    case = {"kind": kind, "tds": [spec_sx(s) for s in specs], "args": [a.tolist() if isinstance(a, torch.Tensor) else a for a in args]}
    if container is not None:
        case["container"] = container
        if container == "lazy":
            case["stack_dim"] = tds[0]._c02_stack_dim
    run.count("ext.kind", kind if container is None else f"{kind}@{container}")

    def go(objs, use_out=False):
        x = objs[0]
        if kind == "repeat":
            if isinstance(x, torch.Tensor) and not args[0]:
                return x.repeat(())
            return x.repeat(*args[0])
        if kind == "repeat_interleave":
            return x.repeat_interleave(args[0], dim=args[1]) if args[1] is not None else x.repeat_interleave(args[0])
        if kind == "gather":
            return x.gather(args[0], args[1])
        if kind == "masked_select":
            return x.masked_select(args[0]) if not isinstance(x, torch.Tensor) else x[args[0]]
        f = torch.stack if kind.startswith("stack") else torch.cat
        if kind in ("stack_lazy_in", "cat_lazy_in"):
            if isinstance(x, torch.Tensor):
                return f(list(objs), args[0])
            ops = [build_lazy_operand(sp_, args[1], 100000 * j, args[2][j]) for j, sp_ in enumerate(specs)]
            r = f(ops, args[0])
            return densify(r)
        if kind in ("stack_tc_in", "cat_tc_in"):
            if isinstance(x, torch.Tensor):
                return f(list(objs), args[0])
            ops = [tc_class()._from_tensordict(o) if is_tc else o for o, is_tc in zip(objs, args[1])]
            r = f(ops, args[0])
            from tensordict import is_tensorclass
            if bool(is_tensorclass(r)) != bool(args[1][0]):
                raise ClassMismatch(f"the result is a {type(r).__name__} but the first operand is a {type(ops[0]).__name__}")
            return densify(r)
        if kind == "stack_lazy_out":
            if isinstance(x, torch.Tensor):
                return torch.stack(list(objs), args[0])
            from tensordict import LazyStackedTensorDict
            sd = args[1]
            dd_ = args[0] + n + 1 if args[0] < 0 else args[0]
            new_bs = list(specs[0][1]); new_bs.insert(dd_, len(specs))
            out_spec = insert_dim(specs[0], dd_, len(specs))
            out = LazyStackedTensorDict.lazy_stack([build_select(out_spec, sd, i).apply(lambda v: torch.zeros_like(v)) for i in range(new_bs[sd])], sd)
            torch.stack(list(objs), args[0], out=out)
            return out.contiguous()
        if kind == "cat_lazy_out":
            if isinstance(x, torch.Tensor):
                return torch.cat(list(objs), args[0])
            from tensordict import LazyStackedTensorDict
            sd = args[1]
            lz = [LazyStackedTensorDict.lazy_stack([build_select(sp_, sd, i, 100000 * j) for i in range(sp_[1][sd])], sd)
                  for j, sp_ in enumerate(specs)]
            dd_ = args[0] + n if args[0] < 0 else args[0]
            total = list(specs[0][1]); total[dd_] = sum(sp_[1][dd_] for sp_ in specs)
            out_spec = resize_dim(specs[0], dd_, total[dd_])
            out = LazyStackedTensorDict.lazy_stack([build_select(out_spec, sd, i).apply(lambda v: torch.zeros_like(v)) for i in range(total[sd])], sd)
            torch.cat(lz, args[0], out=out)
            return out.contiguous()
        if use_out:
            out = f(list(objs), args[0]).clone()
            if not isinstance(out, torch.Tensor):
                out.apply_(lambda t: t.zero_())
            r = f(list(objs), args[0], out=out)
            return out if r is None else r
        return f(list(objs), args[0])
    pfx = ""
    try:
        ref = go(idxs)
        terr = None
    except Exception as e:  # noqa: BLE001
        ref, terr = None, e
    if container == "lazy" and ref is not None:
        # a result without members along the stack dim (repeat 0 times / a mask that keeps nothing): a lazy stack takes its keys and
        # the batch size of its members from its members, so such a result has lost them (known finding, same class as the empty split piece)
        sd = tds[0]._c02_stack_dim
        if (kind in ("repeat", "repeat_interleave") and ref.dim() > sd and ref.shape[sd] == 0 and (kind == "repeat" or args[1] is not None)) \
                or (kind == "repeat_interleave" and args[1] is None and ref.shape[0] == 0) \
                or (kind == "masked_select" and ref.shape[0] == 0):
            # (repeat_interleave without dim flattens first: `reshape(-1)` is again a lazy stack, along dim 0)
            pfx = "empty-stack-result:"
    src_before = [meta_canon(t) for t in tds] if container is None else None
    try:
        with time_limit(30.0):
            res = go(tds, use_out=kind.endswith("_out"))
        ierr = None
    except Exception as e:  # noqa: BLE001
        slow_is_infra(e)
        res, ierr = None, e
    if src_before is not None and not isinstance(ierr, TimeoutError):
        src_after = [meta_canon(t) for t in tds]
        if src_after != src_before:
            run.oracle_fail(site, case, "an operand was modified by the (out-of-place) op", f"{pfx}{kind}:source-modified")
            return
    if ierr is None and container is not None:
        try:
            with time_limit(30.0):
                res = densify(res)
        except Exception as e:  # noqa: BLE001
            run.oracle_fail(site, case, f"the result cannot be read back: {type(e).__name__}: {str(e)[:100]}", f"{pfx}{kind}:unreadable-result:{type(e).__name__}")
            return
    if ierr is not None and container == "lazy":
        if isinstance(ierr, TimeoutError):
            run.oracle_fail(site, case, "does not terminate", f"{pfx}{kind}:timeout")
        elif valid_call and terr is None:
            # the argument grid: the call is valid for a tensor of that batch shape
            what = kind + (":tensor-repeats" if kind == "repeat_interleave" and isinstance(args[0], torch.Tensor) else "")
            run.oracle_fail(site, case, f"lazy stack refuses a valid call: {type(ierr).__name__}: {str(ierr)[:100]}", f"lazy-grid:{pfx}{what}:rejects-valid:{type(ierr).__name__}")
        else:
            run.count(site + ".refused", kind)
        return
    if ierr is not None:
        if terr is None:
            if kind == "gather" and args[1].numel() == 0:
                run.count("ext.stricter_rejection", "gather with an empty index ('Cannot use torch.gather with an empty index')")
                run.oracle_ok(site)
                return
            if kind == "gather" and any(k != (args[0] + n if args[0] < 0 else args[0]) and args[1].shape[k] != specs[0][1][k] for k in range(n)):
                run.count("ext.stricter_rejection", "gather: the index may differ from the batch size only along dim (documented)")
                run.oracle_ok(site)
                return
            if kind == "repeat" and len(args[0]) != n:
                run.count("ext.stricter_rejection", "repeat: 'The number of repeat elements must match the number of dimensions'")
                run.oracle_ok(site)
                return
            if kind == "repeat" and any(r < 0 for r in args[0]):
                # torch only "accepts" a negative repeat when the product with a zero-sized dim happens to be 0
                run.count("ext.stricter_rejection", "negative repeats")
                run.oracle_ok(site)
                return
            if kind in ("cat", "cat_out") and not (-n <= args[0] < n):
                # torch.cat skips 1-D empty operands (legacy) and then never looks at dim
                run.count("ext.stricter_rejection", "cat dim out of range on all-empty operands")
                run.oracle_ok(site)
                return
            run.oracle_fail(site, case, f"tensordict raises {type(ierr).__name__}: {str(ierr)[:120]} but torch accepts", f"{pfx}{kind}:rejects-torch-accepts:{type(ierr).__name__}")
            return
        run.oracle_ok(site)
        return
    if terr is not None:
        run.oracle_fail(site, case, f"tensordict accepts but torch raises {type(terr).__name__}: {str(terr)[:100]}", f"{pfx}{kind}:accepts-torch-rejects")
        return
    if container is not None:
        # reading a container's result back goes through more library code (lazy nested entries): a failure there is the library's
        try:
            _ = (tuple(res.batch_size), list(res.names), list(res.keys(True, False)), [v.shape for v in res.values(True, True)])
        except Exception as e:  # noqa: BLE001
            run.oracle_fail(site, case, f"the result cannot be read back: {type(e).__name__}: {str(e)[:100]}", f"{pfx}{kind}:unreadable-result:{type(e).__name__}")
            return
    if tuple(res.batch_size) != tuple(ref.shape):
        run.oracle_fail(site, case, f"batch_size {tuple(res.batch_size)} but torch gives {tuple(ref.shape)}", f"{pfx}{kind}:batch")
        return
    names = specs[0][2] if specs[0][2] is not None else [None] * n
    want = ext_names(kind, names, n, args)
    if not names_ok(res.names, want):
        run.oracle_fail(site, case, f"names {list(res.names)} expected {want}", f"{pfx}{kind}:names")
        return
    got_keys = sorted((k,) if isinstance(k, str) else tuple(k) for k in res.keys(True, False))
    if got_keys != spec_keys(specs[0]):
        run.oracle_fail(site, case, f"keys {got_keys} expected {spec_keys(specs[0])}", f"{pfx}{kind}:keys")
        return
    bad = check_ext_entries(res, specs, n, kind, args, ref, ())
    if bad:
        run.oracle_fail(site, case, bad, f"{pfx}{kind}:{bad.split(' ')[0]}")
        return
    run.oracle_ok(site)


def check_ext_entries(res, specs, n, kind, args, ref, prefix):
    multi = kind in ("stack", "cat", "stack_out", "cat_out", "cat_lazy_out", "stack_lazy_out", "stack_lazy_in", "cat_lazy_in", "stack_tc_in", "cat_tc_in")
    for j, (k, e) in enumerate(specs[0][3]):
        v = res.get(k)
        es = [s[3][j][1] for s in specs]
        if e[0] == "leaf":
            srcs = [torch.arange(numel(x[1]), dtype=torch.int64).reshape(x[1]) + 100000 * i for i, x in enumerate(es)]
            if multi:
                d = args[0]
                dn = (d + n + 1 if d < 0 else d) if kind.startswith("stack") else (d + n if d < 0 else d)
                want = (torch.stack if kind.startswith("stack") else torch.cat)(srcs, dn)
            else:
                shape = e[1]
                want = srcs[0].reshape((numel(shape[:n]),) + tuple(shape[n:]))[ref]
            if tuple(v.shape) != tuple(want.shape):
                return f"leaf-shape {prefix + (k,)}: {tuple(v.shape)} expected {tuple(want.shape)}"
            if v.dtype != want.dtype:
                return f"leaf-dtype {prefix + (k,)}: {v.dtype} expected {want.dtype}"
            if not torch.equal(v, want):
                return f"leaf-values {prefix + (k,)} differ from torch applied to the batch dims"
        else:
            ext = e[1][n:]
            if tuple(v.batch_size) != tuple(ref.shape) + tuple(ext):
                return f"nested-batch {prefix + (k,)}: {tuple(v.batch_size)} expected {tuple(ref.shape) + tuple(ext)}"
            bad = check_ext_entries(v, es, n, kind, args, ref, prefix + (k,))
            if bad:
                return bad
    return None


# --------------------------------------------------------------------------- extended domain: other container kinds
_TC = None


def tc_class():
    global _TC
    if _TC is None:
        from typing import Any
        from tensordict import tensorclass

        @tensorclass
        class C02TC:
            x0: Any = None
            x1: Any = None
            x2: Any = None
            n: Any = None
        _TC = C02TC
    return _TC


def strip_names(spec):
    if spec[0] == "leaf":
        return spec
    return ("node", spec[1], None, [(k, strip_names(e)) for k, e in spec[3]])


def build_select(spec, d, i, off=0):
    """the i-th slice along batch dim d of build_offset(spec, off), built leaf by leaf with torch only
    (the harness must not depend on tensordict.unbind to construct its inputs)"""
    from tensordict import TensorDict
    _, bs, names, entries = spec
    src = {}
    for k, e in entries:
        if e[0] == "leaf":
            src[k] = (torch.arange(numel(e[1]), dtype=torch.int64).reshape(e[1]) + off).select(d, i)
        else:
            src[k] = build_select(e, d, i, off)
    nm = None if names is None else [n for j, n in enumerate(names) if j != d]
    if nm is not None and all(n is None for n in nm):
        nm = None
    return TensorDict(src, batch_size=[x for j, x in enumerate(bs) if j != d], names=nm)


def build_container(spec, kind, rng, stack_dim=None):
    """(container, spec it represents) for kind in {'lazy', 'tc'}; None if the kind does not apply"""
    if kind == "tc":
        td = build(spec)
        return tc_class()._from_tensordict(td), spec
    bs = spec[1]
    dims = [i for i, d in enumerate(bs) if d >= 1]
    if not dims:
        return None, None
    from tensordict import LazyStackedTensorDict
    # named lazy stacks too: the members carry the names of their dims, the stack dim its own (`stack_dim_name`)
    sp = spec if (spec[2] is not None and rng.random() < 0.6) else strip_names(spec)
    d = rng.choice(dims) if stack_dim is None else stack_dim
    sdn = None if sp[2] is None else sp[2][d]
    cont = LazyStackedTensorDict.lazy_stack([build_select(sp, d, i) for i in range(bs[d])], d, stack_dim_name=sdn)
    cont._c02_stack_dim = d
    return cont, sp


def densify(x):
    from tensordict import LazyStackedTensorDict, TensorDict
    if isinstance(x, (tuple, list)):
        return [densify(y) for y in x]
    if hasattr(x, "_tensordict") and not isinstance(x, TensorDict):
        x = x._tensordict
    if isinstance(x, LazyStackedTensorDict):
        dense = x.contiguous()
        # the NAMES under test are those of the lazy result (contiguous() itself forgets the stack dim's name when the members are
        # unnamed: `_has_names()` of a lazy stack only looks at the members — observation, not a C02 matter)
        try:
            if list(dense.names) != list(x.names):
                dense.names = list(x.names)
        except Exception:  # noqa: BLE001
            pass
        return dense
    return x


LAZY_OPS = ("permute", "transpose", "squeeze", "unsqueeze", "unbind", "split", "chunk", "splitlist", "flatten", "unflatten", "reshape", "expand")


def run_container(run, spec, op, kind, rng, malformed=False, stack_dim=None, valid_call=False):
    """the same case on another container kind (oracle only).  A tensorclass delegates to the TensorDict code (same site,
    so the same known findings apply).  Lazy stacks have their own implementation (_lazy.py): only the ops listed in
    LAZY_OPS with well-formed arguments are judged (`view` is refused by lazy stacks by design: "Call `reshape` instead");
    expanding to size 0 gives a stack without members (known finding C02-lazy-empty-stack-result)."""
    if kind == "lazy" and (malformed or op[0] not in LAZY_OPS):
        return
    cont, sp = build_container(spec, kind, rng, stack_dim)
    if cont is None:
        return
    site = "shape_op" if kind == "tc" else "shape_op_lazy"

    def cont_meta():
        c = cont._tensordict if kind == "tc" else cont
        out = [list(c.batch_size), [None if x is None else str(x) for x in c.names], bool(c.is_locked)]
        if kind == "lazy":
            out += [c.stack_dim, [[list(m.batch_size), [None if x is None else str(x) for x in m.names], sorted(map(str, m.keys(True, True)))] for m in c.tensordicts]]
        return out
    meta_before = cont_meta()
    # the lazy view family builds its result out of pieces of the source; when a piece IS the source or one of its members (`flatten(d, d)`:
    # one dim; `unflatten(d, (1, …))`: `chunk(1)` returns the stack itself) the names assigned to the result afterwards land in the source
    # (known finding C02-lazy-viewfamily-renames-source)
    nsp = len(sp[1])
    single = ""
    if kind == "lazy" and op[0] == "flatten" and nsp and -nsp <= op[1] < nsp and -nsp <= op[2] < nsp and op[1] % nsp == op[2] % nsp:
        single = "single-dim:"
    if kind == "lazy" and op[0] == "unflatten" and nsp and -nsp <= op[1] < nsp and len(op[2]) >= 2:
        first = op[2][0]
        if first == -1:
            rest = numel([x for x in op[2][1:]])
            first = sp[1][op[1] % nsp] // rest if rest > 0 else -1
        if first == 1:
            single = "size-one-first:"
    # a tensorclass is also called through `torch.<op>(tc, …)` and with keywords (a lazy stack through the method, as in the grid)
    spelling = rng.choice([0, 0, 3, 4, 5]) if kind == "tc" else 0
    try:
        with time_limit(30.0):
            r = call(cont, op, spelling)
    except Exception as e:  # noqa: BLE001
        slow_is_infra(e)
        if not isinstance(e, TimeoutError) and cont_meta() != meta_before:
            run.oracle_fail(site, {"op": list(op), "td": spec_sx(sp), "container": kind}, "the source container was modified by a refused op", f"{single}{op[0]}:source-modified")
            return
        impl, raw = ["err", err_class(e)], e
        # a container kind that does not support an op / argument may refuse it: only wrong *results* are judged,
        # and non-termination
        if impl[1] == "timeout":
            run.oracle_fail(site, {"op": list(op), "td": spec_sx(sp), "container": kind}, "does not terminate", f"{op[0]}:timeout")
        elif kind == "lazy" and op[0] == "transpose" and isinstance(e, ValueError):
            # a well-formed transpose refused by the lazy stack: the non-adjacent stack-dim branch calls the members with a wrong dim
            n = len(sp[1]); sd = cont._c02_stack_dim
            a, b = (op[1] + n if op[1] < 0 else op[1]), (op[2] + n if op[2] < 0 else op[2])
            if n and 0 <= a < n and 0 <= b < n and sd in (a, b) and abs(a - b) >= 2:
                run.oracle_fail(site, {"op": list(op), "td": spec_sx(sp), "container": kind, "stack_dim": sd},
                                f"lazy stack refuses a valid transpose: {str(e)[:100]}", "stackdim-nonadjacent:transpose:rejects-torch-accepts:ValueError")
            else:
                run.count(site + ".refused", op[0])
        elif kind == "tc":
            # a tensorclass delegates to the TensorDict code: a rejection is judged like the dense one (rejects iff torch rejects, modulo
            # the documented stricter rejections)
            oracle(run, sp, cont._tensordict, op, impl, raw, site=site)
        elif valid_call:
            # the argument grid: every generated call is valid for a tensor of that batch shape, and none of these ops is refused by design
            run.oracle_fail(site, {"op": list(op), "td": spec_sx(sp), "container": kind, "stack_dim": cont._c02_stack_dim},
                            f"lazy stack refuses a valid call: {type(e).__name__}: {str(e)[:100]}", f"lazy-grid:{single}{op[0]}:rejects-valid:{type(e).__name__}")
        else:
            # a lazy stack refuses several ops / arguments by design (`view`, heterogeneous results): counted, not judged
            run.count(site + ".refused", op[0] + ":" + type(e).__name__)
        return
    case = {"op": list(op), "td": spec_sx(sp), "container": kind}
    if cont_meta() != meta_before:
        run.oracle_fail(site, case, f"the source container was modified by the (out-of-place) op: {cont_meta()} before: {meta_before}"[:500], f"{single}{op[0]}:source-modified")
        return
    prefix = ""
    if kind == "lazy":
        n = len(sp[1])
        sd = cont._c02_stack_dim
        case["stack_dim"] = sd
        if op[0] == "transpose":
            a, b = (op[1] + n if op[1] < 0 else op[1]), (op[2] + n if op[2] < 0 else op[2])
            if sd in (a, b) and abs(a - b) >= 2:
                prefix = "stackdim-nonadjacent:"
        if op[0] in ("flatten", "unflatten", "reshape", "expand"):
            # `_lazy.py:_view` re-cuts the stack (lazy stacks of chunks / a dense reshape): with a zero-sized batch dim the result
            # degenerates (empty-stack class, not judged), and the names of NESTED entries are erased (known finding)
            if any(x == 0 for x in sp[1]):
                run.count(site + ".not_judged", "view family on a zero-sized lazy stack")
                return
            prefix = "lazy-viewfamily:" + single
        if op[0] == "expand" and any(x == 0 for x in op[1]):
            prefix = "empty-stack-result:"
        if op[0] in ("split", "splitlist", "chunk"):
            dd = op[-1] + n if op[-1] < 0 else op[-1]
            if dd == sd:
                prefix = "along-stackdim:"
                if op[0] == "splitlist" and any(x == 0 for x in op[1]):
                    # a zero-length piece along the stack dim is a lazy stack without members (known finding: it has no keys)
                    prefix = "along-stackdim-empty-piece:"
    try:
        if r is cont:
            impl, raw = ["self"], densify(cont)
            oracle(run, sp, raw, op, impl, raw, site=site, fp_prefix=prefix)
            return
        dense = densify(r)
    except Exception as e:  # noqa: BLE001
        run.oracle_fail(site, case, f"the result cannot be read back (contiguous()/names/items): {type(e).__name__}: {str(e)[:100]}",
                        f"{prefix}{op[0]}:unreadable-result:{type(e).__name__}")
        return
    if isinstance(dense, list):
        oracle(run, sp, None, op, ["oks"], dense, site=site, fp_prefix=prefix)
    else:
        oracle(run, sp, None, op, ["ok"], dense, site=site, fp_prefix=prefix)


# --------------------------------------------------------------------------- the source of an out-of-place op stays as it was
def meta_canon(td):
    """batch size, names, key order, leaf shapes / dtypes, recursively, plus a cheap content fingerprint of every leaf"""
    out = ["node", list(td.batch_size), [None if n is None else str(n) for n in td.names], bool(td.is_locked)]
    for k, v in td.items():
        if isinstance(v, torch.Tensor):
            out.append([k, "leaf", list(v.shape), str(v.dtype), int(v.sum().item()) if v.numel() else 0])
        else:
            out.append([k, meta_canon(v)])
    return out


def build_lazy_operand(spec, sd, off, rot):
    """a lazy stack along `sd` of the members of build_offset(spec, off); the entries of the members are inserted in a key order
    rotated by `rot` (operands whose members were filled in different orders must still be paired by KEY)"""
    from tensordict import LazyStackedTensorDict, TensorDict
    _, bs, names, entries = spec
    ents = list(entries)
    if ents:
        r = rot % len(ents)
        ents = ents[r:] + ents[:r]
    rspec = ("node", bs, names, ents)
    members = []
    for i in range(bs[sd]):
        members.append(build_select(rspec, sd, i, off))
    return LazyStackedTensorDict.lazy_stack(members, sd)
