#!/bin/bash
# verify_seeded.sh [id-prefix]: for every seeded change: demo exits 0 on the clean tree and non-zero with the patch applied
cd /repo; git diff --quiet || { echo "/repo has local changes"; exit 2; }
for d in /verif/seeded/${1}*/; do
  id=$(basename $d)
  timeout 900 /venv/bin/python $d/demo.py >/dev/null 2>&1; c=$?
  if git apply $d/patch.diff 2>/dev/null; then timeout 900 /venv/bin/python $d/demo.py >/dev/null 2>&1; p=$?; git checkout -- .; else p="patch-does-not-apply"; fi
  echo "$id clean=$c patched=$p"
done
