"""C01 — batch-shape / device / dim-name coherence in every reachable state (DESIGN §6 C01).

proofs        : lean/TdVerif/Props/C01.lean over lean/TdVerif/Model/C01Coherence.lean
correspondence: random histories on random trees; every step sends (pre-state metadata, op) to the compiled Lean model
                and compares (post-state metadata snapshot incl. batch sizes, devices, dim names, key order; outcome)
                with the real TensorDict — also for calls that raise (partial effects).
oracle        : walk_coherent(td), a recursive checker over batch_size/device/names/items(), after every call incl.
                raising ones; extended domain (oracle only): lazy stacks, tensorclass entries, non-tensor entries,
                in-place writes, index assignment, update, setdefault, auto_batch_size_, flatten/unflatten/select/exclude in place.
"""
from __future__ import annotations

import json
import warnings

from common import Infra, Run, main_guard, parse_sx, time_limit

import c01_ops as O

warnings.filterwarnings("ignore")


def ask_batched(drv, reqs, limit=30000):
    out, cur, size = [], [], 0
    for r in reqs:
        if cur and size + len(r) + 1 > limit:
            out += drv.ask_many(cur)
            cur, size = [], 0
        cur.append(r)
        size += len(r) + 1
    if cur:
        out += drv.ask_many(cur)
    return out


def in_scope(state, op):
    """the property's exclusion: a child's batch size changed through a direct handle so that it no longer extends
    its parent's (the child has no back-pointer). Everything else is in scope."""
    if op[0] == "setbatch" and op[1]:
        parent = O.get_at(state, op[1][:-1])
        return op[2][:len(parent[1])] == parent[1]
    return True


def auto_out_of_scope(pre, op, post):
    """auto_batch_size_ through a nested handle: out of scope when the child's new batch size no longer extends the batch
    size of the node holding it (Props/C01.lean InScope: handleOk of the computed size)"""
    if op[0] not in ("auto", "updatebs") or not op[1]:
        return False
    parent = O.get_at(pre, op[1][:-1])
    child = O.get_at(post, op[1])
    if parent is None or child is None or child[0] != "n":
        return False
    return child[1][:len(parent[1])] != parent[1]


_BOX = None


def box_cls():
    """a tensorclass whose single field holds a tensordict: the tensorclass keeps its fields in a TensorDict (`_tensordict`), so
    the modelled tree is {"td": <tree>} under the batch size / device / names of the tensorclass"""
    global _BOX
    if _BOX is None:
        from tensordict import TensorDict, tensorclass

        @tensorclass
        class C01Box:
            td: TensorDict
        _BOX = C01Box
    return _BOX


ROOT_OPS_ON_BOX = ("setbatch", "setnames", "refine", "auto")


def run_history(run, rng, hid, maxlen, steps):
    bs = O.gen_bs(rng)
    dev = rng.choice([None, None, 0, 1])
    init = O.gen_tree(rng, bs, dev, depth=2)
    boxed = rng.random() < 0.15
    try:
        td = O.build(init)
        if boxed:
            # tensorclass-wrapped: the same modelled operations, issued through the tensorclass and the tensordict it holds
            rbs = list(bs[:rng.randint(0, len(bs))])
            holder = O.build(["n", rbs, dev, None, []])
            holder.set("td", td)
            if rbs and rng.random() < 0.3:
                holder.names = O.gen_names(rng, len(rbs), 1.0)
            td = box_cls()._from_tensordict(holder)
    except Exception:   # noqa  (the generator produced something the constructor rejects: not a case)
        return
    snap = (lambda x: O.snap(x._tensordict)) if boxed else O.snap
    walk = (lambda x: O.walk_coherent(x._tensordict)) if boxed else O.walk_coherent
    for stepno in range(rng.randint(1, maxlen)):
        pre = snap(td)
        op = O.gen_op(rng, pre)
        if boxed and not op[1] and op[0] not in ROOT_OPS_ON_BOX:
            continue        # the fields of the tensorclass itself are not added / removed / renamed
        if not in_scope(pre, op):
            continue
        op = O.prepare_op(op)
        if op is None:
            continue
        case = {"history": hid, "step": stepno, "pre": pre, "op": op[:4]}
        try:
            out = O.apply_impl(td, op)
            post = snap(td)
            if op[0] == "write":
                # the model is given the observed state of the addressed node: it accepts it iff it lies inside the envelope
                obs = O.get_at(post, op[1])
                before = O.get_at(pre, op[1])
                run.count("write", f"{op[4]['call']}:{out[0]}" + (":new-entries" if obs is not None and before is not None and len(O.entries_of(obs)) > len(O.entries_of(before)) else ""))
                op = ["write", op[1], op[2], obs if obs is not None else before, op[4]]
                case["op"] = op[:3] + [op[4]]
            elif op[0] == "selectin":
                obs = O.get_at(post, op[1])
                before = O.get_at(pre, op[1])
                run.count("selectin", f"{'strict' if op[3]['strict'] else 'lenient'}:{out[0]}" + (":shrunk" if obs is not None and before is not None and obs != before else ""))
                op = ["selectin", op[1], obs if obs is not None else before, op[3]]
            else:
                op = op[:4]
            viol = walk(td)
        except TimeoutError:
            raise
        except Exception as e:  # noqa
            run.oracle_fail("walk", case, f"the tree cannot be walked after {op[0]}: {type(e).__name__}: {str(e)[:120]}", "unobservable:" + op[0])
            return
        if auto_out_of_scope(pre, op, post):
            run.count("ops", op[0] + ":out-of-scope")
            return        # the documented exclusion: the tree is legitimately incoherent from here on
        run.case(json.dumps([pre, op]))
        run.count("ops", op[0] if op[0] != "write" else "write:" + op[4]["call"])
        run.count("outcome", out[0] + (":" + out[1] if out[0] == "err" else ""))
        run.count("batch_rank", len(pre[1]))
        run.count("handle_depth", len(op[1]))
        run.count("container", "tensorclass" if boxed else "TensorDict")
        if boxed:
            case["container"] = "tensorclass"
        steps.append({"case": case, "pre": pre, "op": op, "impl": [post, out]})
        if viol:
            report_walk(run, case, op, out, viol)
            return        # later steps on an incoherent tree say nothing new
        run.oracle_ok("walk")


def report_walk(run, case, op, out, viol):
    run.oracle_fail("walk", case, f"after {op[0]} ({'raised ' + out[1] if out[0] == 'err' else 'accepted'}): " + "; ".join(viol[:3]),
                    f"{op[0]}:{'raised:' + out[1] if out[0] == 'err' else 'accepted'}")


def set_names_raw(td, skel):
    """witness states may carry names that only a nested handle can create: re-apply them node by node"""
    if skel[3] is not None:
        td._td_dim_names = list(skel[3])
    for k, c in skel[4]:
        if c[0] == "n":
            set_names_raw(td.get(k), c)


def replay_file(run, path, quiet=False):
    data = json.loads(open(path).read())
    cases = [f["case"] for f in data.get("failures", [])]
    for v in data.get("broken_correspondence", {}).values():
        cases += [c["case"] for c in v]
    for case in cases:
        if not isinstance(case, dict) or "pre" not in case or "op" not in case:
            continue
        pre, op = case["pre"], list(case["op"])
        def strip(s):
            return s if s[0] == "l" else ["n", s[1], s[2], None, [[k, strip(c)] for k, c in s[4]]]
        try:
            td = O.build(strip(pre))
            set_names_raw(td, pre)
        except Exception:  # noqa
            continue
        if O.snap(td) != pre:
            run.notes.append(f"replay: could not rebuild the recorded pre-state of {case.get('id', op[0])} exactly")
        if op[0] == "write" and len(op) == 4:
            op = op[:3] + [None, op[3]]          # recorded without the observed state
        op = O.prepare_op(op)
        if op is None:
            continue
        out = O.apply_impl(td, op)
        viol = O.walk_coherent(td)
        run.case(json.dumps([pre, op[:4]]))
        run.count("corpus", case.get("id", op[0]))
        if viol:
            report_walk(run, case, op, out, viol)
        else:
            run.oracle_ok("walk")
        if not quiet:
            print(f"replayed {op[0]}: outcome {out}, violations {viol}")


def main():
    run = Run("C01")
    run.rule = ("random histories of 1..25 mutating calls (set of well/ill-shaped tensors and nested tensordicts incl. auto-created keys, batch_size and names "
                "assignment, del_, rename_key_, create_nested, clear, pop, popitem, setdefault, refine_names, update with dict or tensordict payloads, exclude / select / flatten_keys / unflatten_keys in place, writes into existing storage by index (set_at_, __setitem__, update_at_, set_ / update_), update with a tensordict (also with update_batch_size=True: payloads derived from the destination with another batch size at the root or in one nested tensordict); auto_batch_size_ on the root or through a handle) issued on the root or through a nested handle, on trees of depth <= 3, batch rank 0-3 with "
                "dims in {0,1,2,3}, cpu/meta/no device, named/unnamed; a case is one (pre-state, op) pair")
    run.trusted += [
        "Model/C01Coherence.lean: hand transcription of _validate_value/_set_tuple/_batch_size_setter/_check_new_batch_size/names setter/_rename_subtds/"
        "rename_key_/create_nested/_set_max_batch_size/_exclude/_flatten_keys_inplace/unflatten_keys (each function cites its source); tied to the code by the per-step correspondence of this check",
        "harness/c01_ops.py: generators, snapshot, walk_coherent (the oracle)",
        "Model/C01Lazy.lean: hand transcription of LazyStackedTensorDict names getter/setter, insert/append, _set_str/_set_tuple, del_, rename_key_, the refused batch_size "
        "assignment (a lazy stack as root container); tied to the code by the streams lazy.state / lazy.outcome",
    ]
    run.assumptions += [
        "values of leaves are not modelled (C02/C03/C07); `.to(device)` is modelled as: result on the requested device, except out of the meta device (raises)",
        "out of scope (property text): shrinking / altering a child's batch size through a direct handle so that it no longer extends its parent's",
        "locking, memmap/shared state are outside the model; non-tensor entries and nested lazy stacks / tensorclasses inside a tree are oracle-only (walk-ext); index writes and select in place are witnessed envelopes (the model is given the observed state and accepts it iff it lies inside a decidable envelope proved coherent)",
    ]
    run.build_and_audit(["TdVerif.Props.C01"])
    import c04_pins
    from common import REPO as _REPO
    c04_pins.check(run, _REPO, "C01")
    drv = run.driver()
    rng = run.rng
    if run.replay:
        replay_file(run, run.replay)
        run.finish("proof")
    from common import VERIF
    for f in sorted((VERIF / "corpus" / "C01").glob("*.json")):
        replay_file(run, str(f), quiet=True)
    nh, maxlen = (1200, 25) if run.tier == "quick" else (12000, 25)
    steps = []
    with time_limit(300 if run.tier == "quick" else 2400):
        for hid in range(nh):
            run_history(run, rng, hid, maxlen, steps)
    reqs = [f"(c01.step {O.sx_tree(s['pre'])} {O.sx_op(s['op'])})" for s in steps]
    answers = ask_batched(drv, reqs)
    for s, a, r in zip(steps, answers, reqs):
        if a == "(bad-op)":
            raise Infra("driver rejected " + r[:300])
        v = parse_sx(a)
        model = [O.tree_from_sx(v[0]), ["ok"] if v[1][0] == "ok" else ["err", v[1][1]]]
        run.corr("step.state", s["case"], s["impl"][0], model[0])
        if s["op"][0] not in ("write", "selectin"):      # (select in place: the model is a witnessed envelope, its outcome says "inside"); the outcome of a write into storage depends on torch's `tensor[index] = value`: not modelled
            run.corr("step.outcome", s["case"], s["impl"][1], model[1])
    for s in steps[:3]:
        run.sample({"pre": s["pre"], "op": s["op"], "impl_post": s["impl"][0], "impl_out": s["impl"][1]})
    import c01_lazy
    c01_lazy.run_lazy(run, drv, rng, 150 if run.tier == "quick" else 1500)
    import c01_extended
    c01_extended.run_extended(run, rng)
    run.finish("proof")


if __name__ == "__main__":
    main_guard(main)
