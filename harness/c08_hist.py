"""C08 history oracle: several operations in a row on ONE lazy stack and its dense twin.

Each step is a mutating op, a read op (result compared, no state change) or a view op whose result
becomes the object the next steps work on (chains of views must keep writing through to the root
members exactly as the chain of dense views writes through to the root dense stack).  After every
step the current objects are compared, and the ROOT members against the ROOT dense stack.
A step that raises on exactly one side ends the history (the two sides are no longer in the same
state; raising is allowed), a step that raises on both sides is skipped.
"""
from __future__ import annotations

import torch
from tensordict import LazyStackedTensorDict

import c08_gen as G
import c08_ops as O
from common import time_limit


def _shape_of(x):
    return list(x.batch_size)


def history_stream(run, n_cases):
    rng = run.rng
    for _ in range(n_cases):
        O.NESTED_EXTRA = rng.random() < 0.2
        rank = rng.choice([1, 1, 2, 2])
        bs = tuple(rng.choice([1, 2, 2, 3]) for _ in range(rank))
        n = rng.randint(1, 4)
        sd = rng.randint(0, rank)
        ms = O.mk_members(bs, n)
        rootL = LazyStackedTensorDict(*ms, stack_dim=sd)
        rootD = O.dense_of(ms, sd)
        curL, curD = rootL, rootD
        steps = []
        case = {"bs": list(bs), "n": n, "sd": sd, "steps": steps}
        run.case(("history", bs, n, sd, rng.random()))
        alive = True
        for _step in range(rng.randint(2, 5)):
            if not alive:
                break
            shape = _shape_of(curD)
            is_lazy = isinstance(curL, LazyStackedTensorDict)
            csd = curL.stack_dim if is_lazy else 0
            what = rng.choice(["mut", "mut", "view", "read"])
            if not shape and what == "view":
                what = "mut"
            try:
                if what == "mut":
                    for _try in range(20):
                        name, args, f = O.gen_mut_op(rng, shape, csd, tuple(shape[1:]), shape[0] if shape else 1)
                        if isinstance(f, tuple) or name in ("update_lazy", "del_", "rename_key_", "pop", "popitem", "set_key", "set_nested", "update",
                                                             "setdefault_new", "setdefault_old", "clear", "update_keys", "apply_inplace",
                                                             "named_apply_inplace", "load_state_dict"):
                            continue       # value writes only: the key set stays what the generators expect
                        if name in ("update_at_", "set_at_") and "ell" in str(args):
                            continue       # the DENSE update_at_/set_at_ index the leaves with the raw Ellipsis (C03's subject)
                        break
                    else:
                        continue
                elif what == "view":
                    for _try in range(20):
                        name, args, f = O.gen_alias_op(rng, shape, csd)
                        if name in O.VIEW_OPS and name not in ("select_keys", "exclude_keys"):
                            break
                    else:
                        continue
                else:
                    name, args, f = O.gen_read_op(rng, shape, csd)
                    if isinstance(f, tuple):
                        f = lambda x: x == x  # noqa: E731
            except TimeoutError:      # a slow box is an infrastructure problem (exit 2), never a verdict
                raise
            except Exception:  # noqa: BLE001  (a generator that cannot serve this shape)
                continue
            steps.append([what, name, str(args)[:200]])
            res = []
            for x in (curL, curD):
                try:
                    with time_limit(180):
                        res.append(("ok", f(x)))
                except TimeoutError:
                    raise
                except Exception as e:  # noqa: BLE001
                    res.append(("raise", type(e).__name__))
            kinds = [r[0] for r in res]
            run.count("history.step", f"{what}:{'/'.join(kinds)}")
            if kinds == ["raise", "raise"]:
                steps[-1].append("both raise")
                if what == "mut":
                    alive = False      # a write that raises half way may leave different partial states
                continue
            if kinds != ["ok", "ok"]:
                steps[-1].append("one side raises")
                alive = False
                break
            d = None
            if what == "read":
                try:
                    d = O.diff_canon(O.canon(res[0][1]), O.canon(res[1][1]), 1e-5 if name in O.ROUNDING_OPS else 0.0)
                except TimeoutError:      # a slow box is an infrastructure problem (exit 2), never a verdict
                    raise
                except Exception:  # noqa: BLE001
                    d = None
                if d:
                    d = f"read {name} differs: {d}"
            elif what == "view":
                rl, rd = res[0][1], res[1][1]
                if not hasattr(rl, "batch_size") or tuple(rl.batch_size) != tuple(rd.batch_size) or O.is_empty_lazy(rl):
                    alive = False
                    break
                curL, curD = rl, rd
            if d is None:
                try:
                    if not O.is_empty_lazy(curL):
                        d = G.same_td(curL, curD)
                        if d:
                            d = "current objects differ: " + d
                    if d is None:
                        d = O.state_diff(ms, rootD, sd)
                        if d:
                            d = "root members vs root dense stack: " + d
                except TimeoutError:      # a slow box is an infrastructure problem (exit 2), never a verdict
                    raise
                except Exception as e:  # noqa: BLE001
                    run.count("history.compare_raises", type(e).__name__)
                    alive = False
                    break
            if d:
                run.oracle_fail("history", dict(case, steps=list(steps)), f"after {len(steps)} steps ({what} {name}): {d}", f"history:{what}:{name}")
                alive = False
                break
        else:
            pass
        if alive or steps:
            run.oracle_ok("history")
