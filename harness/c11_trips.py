"""C11 extended domain (oracle only): every serialisation of the property on the container kinds the
model abstracts (lazy stacks, tensorclasses, NonTensorData / NonTensorStack, jagged nested tensors,
empty nodes, 0-size and non-contiguous leaves). What a format cannot carry by construction is not compared
(stated per trip); everything else must be reproduced exactly."""
from __future__ import annotations

import copy
import pickle
import shutil
import warnings

import torch

from common import BUILD, Infra, Raw, sx, time_limit
from c11_canon import canon, echo_canon, first_diff, lock_behaviour
from c11_hist import DT_HIST as DT, mk_tensor


def make_tc():
    from tensordict import tensorclass

    @tensorclass
    class C11Pair:
        u: torch.Tensor
        v: torch.Tensor
        tag: str

    return C11Pair


_TC = None


def tc_cls():
    global _TC
    if _TC is None:
        _TC = make_tc()
        import sys
        # picklable by reference
        setattr(sys.modules[__name__], "C11Pair", _TC)
        _TC.__module__ = __name__
        _TC.__qualname__ = "C11Pair"
    return _TC


# the class exists as soon as the module is imported: worker processes (forked before the first instance is built, or spawned and
# importing this module afresh) can then unpickle instances of it
tc_cls()


def gen_td(rng, kind):
    from tensordict import LazyStackedTensorDict, NonTensorData, NonTensorStack, TensorDict
    b = rng.choice([[2], [3], [2, 2]])
    device = rng.choice([None, "cpu"])
    names = rng.choice([None, ["t", "u"][: len(b)]])

    def leaf(i, feat=None, dt=None):
        return mk_tensor(rng, dt or rng.choice(DT), b + (feat if feat is not None else rng.choice([[], [1], [2], [0], [3, 2]])), i)

    td = TensorDict({"a": leaf(0), "b": leaf(1)}, batch_size=b, device=device, names=names)
    if kind in ("nested", "mixed"):
        td["n"] = TensorDict({"x": leaf(2), "m": TensorDict({"z": leaf(3)}, batch_size=b, device=device)}, batch_size=b, device=device)
    if kind == "nested-batch":
        # a sub-tensordict with more batch dims (and its own names) than its parent
        td["deep"] = TensorDict({"x": leaf(4, [2]), "y": leaf(5, [2, 1])}, batch_size=b + [2], device=device, names=(names + ["z"]) if names else None)
    if kind == "empty-node":
        td["e"] = TensorDict({}, batch_size=b, device=device)
    if kind in ("nontensor", "mixed", "nontensor-num"):
        td["s"] = NonTensorData("hello", batch_size=b)
        td.set_non_tensor("o", "a string")
    if kind == "nontensor-num":
        # payloads a plain dict cannot tell from tensor data / nested tensordicts
        td.set_non_tensor("i", 3)
        td.set_non_tensor("d", {"k": [1, 2]})
    if kind == "nontensor-stack":
        td["ns"] = NonTensorStack(*[NonTensorData(f"s{i}", batch_size=b[1:]) for i in range(b[0])])
    if kind == "noncontig":
        base = mk_tensor(rng, torch.float32, b + [6, 4], 5)
        td["t"] = base.transpose(-1, -2)
        td["skip"] = base[..., ::2, :]
        td["off"] = base[..., 1:, :]
        td["exp"] = mk_tensor(rng, torch.int32, b + [1], 2).expand(*b, 3)
    if kind == "zero":
        td["z0"] = torch.zeros(b + [0, 3], dtype=torch.float64)
        td["z1"] = torch.zeros(b + [0], dtype=torch.uint8)
    if kind == "flat1d":
        b1 = [b[0]]
        td = TensorDict({k: mk_tensor(rng, dt, b1, i) for i, (k, dt) in enumerate(zip("abcd", rng.sample([torch.float32, torch.int64, torch.uint8, torch.bool, torch.float64, torch.int16, torch.complex64], 3)))},
                        batch_size=b1, device=device)
    if kind == "lazy":
        members = [TensorDict({"a": leaf(i, [2], torch.float32), "b": leaf(i + 1, [], torch.int64)}, batch_size=b[1:], device=device) for i in range(b[0])]
        td = LazyStackedTensorDict(*members, stack_dim=0)
    if kind == "lazy-dim1":
        # a lazy stack along dim 1 (and, every other time, the last dim written as -1) with a name on the stack dim, members with an entry of
        # their own shape each, a nested tensordict and a non-tensor entry
        k = rng.choice([2, 3])
        members = [TensorDict({"a": leaf(i, [2], torch.float32) + i, "h": mk_tensor(rng, torch.int16, [b[0], i + 1], i),
                               "n": TensorDict({"x": leaf(i + 2, [], torch.int64)}, batch_size=[b[0]], device=device), "s": f"m{i}"},
                              batch_size=[b[0]], device=device) for i in range(k)]
        for m_ in members:
            m_["a"] = m_["a"][..., :2].reshape(b[0], -1)[:, :2] if m_["a"].dim() > 2 else m_["a"]
        td = LazyStackedTensorDict(*members, stack_dim=rng.choice([1, -1]), stack_dim_name=rng.choice([None, "env"]))
    if kind == "lazy-nested":
        # a lazy stack of lazy stacks, and a tensorclass inside the members
        inner = [LazyStackedTensorDict(*[TensorDict({"a": torch.full((2,), float(10 * i + j)), "p": tc_cls()(u=torch.full((2, 2), float(j)), v=torch.full((2,), i, dtype=torch.int16), tag=f"t{i}{j}", batch_size=[2])},
                                                    batch_size=[2], device=device) for j in range(2)], stack_dim=0) for i in range(rng.choice([2, 3]))]
        td = LazyStackedTensorDict(*inner, stack_dim=rng.choice([0, 1]))
    if kind == "scalar-batch":
        td = TensorDict({"a": torch.tensor(1.5), "i": torch.tensor(3, dtype=torch.int16), "n": TensorDict({"x": torch.arange(3.0), "z": torch.zeros(0)}, batch_size=[], device=device)},
                        batch_size=[], device=device)
        td.set_non_tensor("o", "a string")
    if kind == "tensorclass":
        td = tc_cls()(u=leaf(0, [2], torch.float32), v=leaf(1, [], torch.int16), tag="T", batch_size=b, device=device)
    if kind == "njt":
        nt = torch.nested.nested_tensor([torch.arange(3.0), torch.arange(5.0)][: b[0]] + [torch.arange(2.0)] * max(0, b[0] - 2), layout=torch.jagged)
        td = TensorDict({"a": mk_tensor(rng, torch.int32, [b[0], 2], 1), "j": nt}, batch_size=[b[0]], device=device)
    if kind == "njt2":
        # several jagged nested tensors in one node, some non-contiguous (built with `lengths=`: holes between the
        # components), in either order, next to plain leaves
        n = b[0]
        d = {"a": mk_tensor(rng, torch.int32, [n, 2], 1)}
        keys = ["h", "p", "q"]
        rng.shuffle(keys)
        for i, k in enumerate(keys[: rng.randint(2, 3)]):
            gaps = [rng.randint(2, 5) for _ in range(n)]
            off = torch.tensor([0] + [sum(gaps[: j + 1]) for j in range(n)])
            values = (torch.arange(int(off[-1]) * 2, dtype=torch.float32) + 100 * (i + 1)).view(-1, 2)
            kw = {"lengths": torch.tensor([rng.randint(1, g) for g in gaps])} if (i == 0 or rng.random() < 0.4) else {}
            d[k] = torch.nested.nested_tensor_from_jagged(values, offsets=off, **kw)
        td = TensorDict(d, batch_size=[n], device=device)
    if kind == "lazy12":
        # more members than one decimal digit counts
        n = rng.randint(11, 14)
        members = [TensorDict({"a": leaf(i, [2], torch.float32) + 100 * i, "b": torch.full(b[1:], i, dtype=torch.int64), "s": f"member-{i}"},
                              batch_size=b[1:], device=device) for i in range(n)]
        td = LazyStackedTensorDict(*members, stack_dim=0)
    return td


KINDS = ["plain", "nested", "nested-batch", "mixed", "empty-node", "nontensor", "nontensor-num", "nontensor-stack", "noncontig", "zero", "flat1d", "lazy", "tensorclass", "njt", "njt2", "lazy12", "lazy-dim1", "lazy-nested", "scalar-batch"]


def trips(td, scratch, rng):
    """name -> (callable producing the round-tripped object, canon options: what this format carries)"""
    from tensordict import TensorDict, TensorDictBase
    from torch.utils import _pytree as pytree
    full = dict(lock=True, names=True, device=True)
    out = {}
    out["pickle"] = (lambda: pickle.loads(pickle.dumps(td)), full)
    out["deepcopy"] = (lambda: copy.deepcopy(td), full)

    def torch_save(x):
        # torch.save / torch.load through a buffer: pickle with torch's own storage records (`weights_only=False`: a tensordict is not on
        # torch's allow-list, `weights_only=True` refuses it by design)
        import io
        buf = io.BytesIO()
        torch.save(x, buf)
        buf.seek(0)
        return torch.load(buf, weights_only=False)
    out["torch.save+torch.load"] = (lambda: torch_save(td), full)
    out["torch.save+torch.load(consolidated)"] = (lambda: torch_save(td.consolidate()), full)
    for nt in (0, 1, 4):
        out[f"consolidate(num_threads={nt})"] = (lambda nt=nt: td.consolidate(num_threads=nt, metadata=bool(nt % 2)), full)
    out["consolidate(share_memory)"] = (lambda: td.consolidate(share_memory=True), full)

    def cons_file():
        f = scratch / f"c{rng.randint(0, 10**9)}.mmap"
        td.consolidate(filename=f, num_threads=rng.choice([0, 1, 4]))
        return TensorDict.from_consolidated(f)
    out["consolidate(file)+from_consolidated"] = (cons_file, full)

    def cons_file_over(bigger):
        # the target file already holds a former consolidation (larger or smaller than the new one)
        f = scratch / f"o{rng.randint(0, 10**9)}.mmap"
        n = 200 if bigger else 1
        TensorDict({"old": torch.arange(float(n)), "older": torch.ones(n, 2, dtype=torch.int64)}, [n]).consolidate(filename=f)
        td.consolidate(filename=f, num_threads=rng.choice([0, 1, 4]))
        return TensorDict.from_consolidated(f)
    out["consolidate(file over a larger file)+from_consolidated"] = (lambda: cons_file_over(True), full)
    out["consolidate(file over a smaller file)+from_consolidated"] = (lambda: cons_file_over(False), full)
    def cons_inplace(then_pickle):
        # inplace=True: the tensordict itself becomes the consolidated one (done on a copy: the other trips go on using `td`)
        # (a locked tensordict cannot be modified in place: the copy is unlocked, consolidated, then locked again)
        mine = td.clone()
        r = mine.consolidate(inplace=True, num_threads=rng.choice([0, 1, 4]), metadata=rng.random() < 0.5)
        if td.is_locked:
            r.lock_()
            mine.lock_()
        if not then_pickle and r is not mine:
            # a lazy stack hands back a new object: the one it was called on must hold the same content all the same
            d_ = first_diff(canon(td, **full), canon(mine, **full))
            if d_ is not None:
                raise AssertionError(f"the tensordict consolidate(inplace=True) was called on differs afterwards: {d_}")
        return pickle.loads(pickle.dumps(r)) if then_pickle else r
    out["consolidate(inplace)"] = (lambda: cons_inplace(False), full)
    out["pickle(consolidated inplace)"] = (lambda: cons_inplace(True), full)

    def cons_file_buffer():
        f = scratch / f"b{rng.randint(0, 10**9)}.mmap"
        td.consolidate(filename=f, use_buffer=True, num_threads=rng.choice([0, 1, 4]))
        return TensorDict.from_consolidated(f)
    out["consolidate(file, use_buffer)+from_consolidated"] = (cons_file_buffer, full)
    out["pickle(consolidated)"] = (lambda: pickle.loads(pickle.dumps(td.consolidate())), full)
    out["deepcopy(consolidated)"] = (lambda: copy.deepcopy(td.consolidate()), full)

    def sd():
        s = td.state_dict()
        dest = td.apply(lambda x: torch.zeros_like(x) if not x.is_nested else x, filter_empty=False)
        if dest.is_locked:
            dest = dest.unlock_()
        dest.load_state_dict(s)
        return dest
    # a state_dict is loaded *into* an existing structure: lock state is the destination's own
    out["state_dict+load_state_dict"] = (sd, dict(lock=False, names=True, device=True))

    def sd_opts(flatten, assign):
        s_ = td.state_dict(flatten=flatten)
        dest = td.apply(lambda x: torch.zeros_like(x) if not x.is_nested else x, filter_empty=False)
        if dest.is_locked:
            dest = dest.unlock_()
        r_ = dest.load_state_dict(s_, from_flatten=flatten, assign=assign)
        return dest if r_ is None else r_
    out["state_dict(flatten)+load_state_dict(from_flatten)"] = (lambda: sd_opts(True, False), dict(lock=False, names=True, device=True))
    out["state_dict+load_state_dict(assign)"] = (lambda: sd_opts(False, True), dict(lock=False, names=True, device=True))
    out["state_dict(flatten)+load_state_dict(from_flatten, assign)"] = (lambda: sd_opts(True, True), dict(lock=False, names=True, device=True))
    out["to_dict+from_dict"] = (lambda: TensorDict.from_dict(td.to_dict(), batch_size=td.batch_size, device=td.device,
                                                              names=list(td.names) if td._has_names() else None), dict(lock=False, names=True, device=True))

    # from_dict inferring the batch size: the first `batch_dims` dims the entries have in common
    out["to_dict+from_dict(auto_batch_size, batch_dims)"] = (
        lambda: TensorDict.from_dict(td.to_dict(), auto_batch_size=True, batch_dims=td.batch_dims, device=td.device,
                                     names=list(td.names) if td._has_names() else None), dict(lock=False, names=True, device=True))

    def pt():
        leaves, spec = pytree.tree_flatten(td)
        return pytree.tree_unflatten(leaves, spec)
    out["pytree"] = (pt, full)
    out["namedtuple"] = (lambda: TensorDict.from_namedtuple(td.to_namedtuple(), batch_size=td.batch_size, device=td.device), dict(lock=False, names=False, device=True))
    out["struct_array"] = (lambda: TensorDict.from_struct_array(td.to_struct_array(), device=td.device), dict(lock=False, names=False, device=True))
    return out


def snapshot_trips(td):
    """serialise, THEN write other values into the source in place, then deserialise: what comes back must be the tensordict as it was
    at the moment of the call. Formats that copy by contract: pickle bytes, deepcopy, state_dict (keep_vars=False: `detach().clone()`,
    flattened or not). name -> (serialise, deserialise)"""
    from tensordict import TensorDict
    out = {"pickle-bytes": (lambda: pickle.dumps(td), lambda b_: pickle.loads(b_))}

    def ts_ser():
        import io
        buf = io.BytesIO()
        torch.save(td, buf)
        return buf.getvalue()

    def ts_de(b_):
        import io
        return torch.load(io.BytesIO(b_), weights_only=False)
    out["torch.save-bytes"] = (ts_ser, ts_de)
    for flatten in (False, True):
        def ser(flatten=flatten):
            return td.state_dict(flatten=flatten)

        def de(sd_, flatten=flatten):
            dest = td.apply(lambda x: torch.zeros_like(x) if not x.is_nested else x, filter_empty=False)
            if dest.is_locked:
                dest = dest.unlock_()
            dest.load_state_dict(sd_, from_flatten=flatten)
            return dest
        out[f"state_dict(flatten={flatten})"] = (ser, de)
    return out


def scramble_(td):
    """write other values into every tensor leaf, in place; returns the function that restores them"""
    saved = []
    for v in td.values(True, True):
        if isinstance(v, torch.Tensor) and not v.is_nested and v.numel():
            saved.append((v, v.clone()))
            if v.dtype == torch.bool:
                v.logical_not_()
            else:
                v.add_(1)

    def restore():
        for v, old in saved:
            v.copy_(old)
    return restore


def applicable(name, kind, td):
    """combinations the library does not define (documented restrictions), not counted either way"""
    if name == "struct_array":
        # numpy has no bfloat16 / structured arrays need plain tensors
        # structured arrays: one scalar field per entry, 1-d batch (the documented use)
        return kind == "flat1d"
    if kind == "njt2":
        kind = "njt"
    if name.startswith("to_dict+from_dict(auto") and kind in ("nontensor-num", "nested-batch"):
        return False    # the plain dict cannot carry them (known findings of the explicit-batch-size trip)
    if kind == "lazy-nested" and name.startswith("consolidate(file"):
        # a custom tensorclass *inside* the structure has no json form: consolidate(filename=...) says so itself ("Failed to convert
        # the metadata to json … such as custom TensorClass"); in memory / pickle / deepcopy it is carried
        return False
    if kind in ("lazy12", "lazy-dim1", "lazy-nested"):
        kind = "lazy"
    if kind == "scalar-batch" and name == "struct_array":
        return False
    if name == "namedtuple" and kind in ("lazy", "tensorclass", "njt", "nontensor-stack"):
        return False
    if name.startswith(("consolidate(file over", "consolidate(file, use_buffer")) and kind in ("tensorclass", "njt"):
        return False
    if kind == "njt" and name not in ("pickle", "deepcopy", "torch.save+torch.load", "torch.save+torch.load(consolidated)", "consolidate(num_threads=0)", "consolidate(num_threads=1)", "consolidate(num_threads=4)",
                                      "pickle(consolidated)", "consolidate(file)+from_consolidated", "consolidate(inplace)", "pickle(consolidated inplace)"):
        return False
    if kind == "lazy" and (name in ("struct_array",) or name.startswith(("state_dict", "to_dict+from_dict"))):
        return False
    if kind == "tensorclass" and (name in ("struct_array",) or name.startswith(("state_dict", "to_dict+from_dict"))):
        return False
    return True


def run_trips(run):
    from tensordict import TensorDictBase
    rng = run.rng
    quick = run.tier == "quick"
    pools = {}
    if not quick:
        import torch.multiprocessing as mp
        torch.set_num_threads(1)
        for method in ("fork", "spawn"):
            pools[method] = mp.get_context(method).Pool(1)
    scratch = BUILD / "tmp" / f"c11t_{run.seed}_{run.tier}"
    shutil.rmtree(scratch, ignore_errors=True)
    scratch.mkdir(parents=True, exist_ok=True)
    try:
        with warnings.catch_warnings():
            warnings.simplefilter("ignore")
            unlock_probed = set()
            for it in range(140 if quick else 840):
                kind = KINDS[it % len(KINDS)]
                td = gen_td(rng, kind)
                lock = rng.random() < 0.4
                if lock:
                    td.lock_()
                ref_cache = {}
                all_trips = trips(td, scratch, rng)
                full = dict(lock=True, names=True, device=True)
                if kind != "tensorclass":   # the tensorclass of this module is defined at run time: not importable by a spawned worker
                    for method, pool in pools.items():
                        all_trips[f"pickle-to-{method}-process"] = ((lambda pool=pool: ("canon", pool.apply(echo_canon, (td, full)))), full)
                        all_trips[f"pickle-to-{method}-process(consolidated)"] = ((lambda pool=pool: ("canon", pool.apply(echo_canon, (td.consolidate(), full)))), full)
                # the copy is taken at the moment of the call: later in-place writes into the source do not reach it
                if kind not in ("lazy", "lazy12", "lazy-dim1", "lazy-nested", "tensorclass", "njt", "njt2", "noncontig"):
                    for sname, (ser, de) in snapshot_trips(td).items():
                        run.case(("snapshot-trip", it, kind, sname, lock))
                        sopts = dict(lock=sname == "pickle-bytes", names=True, device=True)
                        want = canon(td, **sopts)
                        restore = None
                        try:
                            with time_limit(120):
                                payload = ser()
                                restore = scramble_(td)
                                got_ = canon(de(payload), **sopts)
                            sdiff = first_diff(want, got_)
                        except TimeoutError as e:
                            raise Infra(f"{sname} timed out: {e}")
                        except Exception as e:  # noqa: BLE001
                            sdiff = f"raised {type(e).__name__}: {str(e)[:150]}"
                        finally:
                            if restore is not None:
                                restore()
                        if sdiff is None:
                            run.oracle_ok("serialised_at_the_moment_of_the_call")
                        else:
                            run.oracle_fail("serialised_at_the_moment_of_the_call", {"kind": kind, "format": sname, "locked": lock},
                                            f"{sname}: the source was written in place after serialising; what is deserialised differs from the tensordict at the moment of the call: {sdiff}",
                                            f"snapshot:{sname}:{kind}")
                for name, (fn, opts) in all_trips.items():
                    if not applicable(name, kind, td):
                        continue
                    run.case(("trip", it, kind, name, lock))
                    run.count("trip.kind", kind)
                    run.count("trip.format", name)
                    key = tuple(sorted(opts.items()))
                    if key not in ref_cache:
                        ref_cache[key] = canon(td, **opts)
                    try:
                        with time_limit(180):
                            res = fn()
                            got = res[1] if isinstance(res, tuple) and len(res) == 2 and res[0] == "canon" else canon(res, **opts)
                        diff = first_diff(ref_cache[key], got)
                    except TimeoutError as e:
                        raise Infra(f"{name} timed out on a {kind} tensordict (iteration {it}, locked={lock}): {e}")
                    except Exception as e:  # noqa: BLE001
                        diff = f"raised {type(e).__name__}: {str(e)[:150]}"
                    if diff is None and opts.get("lock") and lock and not (isinstance(res, tuple) and len(res) == 2 and res[0] == "canon"):
                        # "including lock state" = the copy *behaves* locked, not only reports it
                        try:
                            acc = lock_behaviour(res)
                        except Exception as e:  # noqa: BLE001
                            acc = [f"probe raised {type(e).__name__}: {str(e)[:80]}"]
                        if acc:
                            diff = "reports is_locked but accepts: " + ", ".join(acc)
                    if diff is None and lock and name.startswith("consolidate(num_threads") and isinstance(res, TensorDictBase) and (kind, name) not in unlock_probed:
                        unlock_probed.add((kind, name))      # once per kind and form: a refused unlock_ costs a garbage collection inside the library
                        # the consolidated copy of a locked tensordict is a tensordict of its own: it can be unlocked while the source lives on
                        try:
                            res.unlock_()
                            res.lock_()
                        except RuntimeError as e:
                            diff = f"the consolidated copy cannot be unlocked while its locked source is alive: {str(e)[:80]}"
                    if diff is None:
                        run.oracle_ok("roundtrip:" + name.split("(")[0])
                    else:
                        what = "other"
                        if diff.startswith("reports is_locked but accepts"):
                            what = "lock-behaviour"
                        if diff.startswith("the consolidated copy cannot be unlocked"):
                            what = "unlock-refused"
                        if diff.startswith("raised"):
                            what = "raise-" + "".join(ch if ch.isalnum() else "-" for ch in diff[7:60])
                        if opts.get("lock") and not diff.startswith("raised") and what not in ("lock-behaviour", "unlock-refused"):
                            try:
                                nolock = dict(opts, lock=False)
                                res2 = fn()
                                got2 = canon(res2, **nolock) if not (isinstance(res2, tuple) and res2[:1] == ("canon",)) else None
                                if got2 is not None and first_diff(canon(td, **nolock), got2) is None:
                                    what = "lock"
                            except Exception:  # noqa: BLE001
                                pass
                        run.oracle_fail("roundtrip:" + name.split("(")[0], {"kind": kind, "format": name, "locked": lock, "td": str(canon(td))[:400]},
                                        f"{name} on a {kind} tensordict (locked={lock}): {diff}", f"{name}:{kind}:{what}:locked={lock}")
            # torch.save / torch.load of a tensordict consolidated IN A FILE, fresh and stale (a key added since): the stale one is pickled entry
            # by entry, its entries are views of the storage that maps the whole file (data + metadata + length suffix)
            import io
            from tensordict import TensorDict
            for n_, dt_ in ((3, torch.float64), (4, torch.float32), (rng.choice([2, 5]), torch.int64)):
                for stale in (False, True):
                    src = TensorDict({"a": torch.arange(n_ * 4).to(dt_).reshape(n_, 2, 2)}, [n_])
                    c_ = src.consolidate(filename=scratch / f"ts{n_}_{int(stale)}.mmap")
                    if stale:
                        if c_.is_locked:
                            c_.unlock_()
                        c_["k"] = torch.zeros(n_)
                    case_ = {"rows": n_, "dtype": str(dt_), "stale": stale}
                    run.case(("torch.save(file-consolidated)", n_, stale))
                    try:
                        buf = io.BytesIO()
                        torch.save(c_, buf)
                        buf.seek(0)
                        back = torch.load(buf, weights_only=False)
                        diff_ = first_diff(canon(c_, lock=False, names=True, device=False), canon(back, lock=False, names=True, device=False))
                    except Exception as e:  # noqa: BLE001
                        diff_ = f"raised {type(e).__name__}: {str(e)[:120]}"
                    if diff_ is None:
                        run.oracle_ok("roundtrip:torch.save+torch.load")
                    else:
                        run.oracle_fail("roundtrip:torch.save+torch.load", case_, f"torch.save + torch.load of a tensordict consolidated in a file ({'stale: a key was added' if stale else 'fresh'}): {diff_}",
                                        f"torch.save:{'stale-' if stale else ''}file-consolidated:{'raise-' + diff_.split(':')[0][7:] if diff_.startswith('raised') else 'differs'}")
    finally:
        for pool in pools.values():
            pool.terminate()
            pool.join()
        shutil.rmtree(scratch, ignore_errors=True)


# ------------------------------------------------------------------------------------ pytree vs the Lean model
def run_pytree(run, drv):
    """tree_flatten / tree_unflatten of nested tensordicts vs Model/C11Pytree.lean: leaves in order, the TreeSpec
    (keys, batch_size, names, device per node) and the tree rebuilt from *new* leaves (what tree_map does)."""
    from tensordict import TensorDict, TensorDictBase
    from torch.utils import _pytree as pytree
    from common import parse_sx
    rng = run.rng
    quick = run.tier == "quick"

    def gen(depth, b, device, names, counter):
        keys = list("abcdef")
        rng.shuffle(keys)
        d = {}
        for k in keys[: rng.randint(0 if depth else 1, 3)]:
            if depth < 2 and rng.random() < 0.35:
                d[k] = gen(depth + 1, b, device, names, counter)
            else:
                d[k] = torch.full(b + rng.choice([[], [2]]), counter[0])
                counter[0] += 1
        return TensorDict(d, batch_size=b, device=device, names=names)

    def td_sx(td):
        parts = ["n", list(td.batch_size), list(td.names) if td._has_names() else None, None if td.device is None else str(td.device), bool(td.is_locked)]
        for k, v in td.items():
            parts.append([k, Raw(td_sx(v))] if isinstance(v, TensorDictBase) else [k, ["l", int(v.reshape(-1)[0])]])
        return sx(*parts)

    def tree(td):
        out = ["n", list(td.batch_size), list(td.names) if td._has_names() else "none", "none" if td.device is None else str(td.device), "true" if td.is_locked else "false"]
        for k, v in td.items():
            out.append([k, tree(v)] if isinstance(v, TensorDictBase) else [k, ["l", int(v.reshape(-1)[0])]])
        return out

    def spec_of(spec):
        if spec.is_leaf():
            return "*"
        c = spec.context
        return [list(c["keys"]), list(c["batch_size"]), list(c["names"]) if c["names"] is not None else "none",
                "none" if c["device"] is None else str(c["device"]), [spec_of(s) for s in (spec.children() if callable(getattr(spec, "children", None)) else spec.children_specs)]]

    from common import Raw, sx

    # ---- state_dict / load_state_dict vs Model/C11StateDict.lean: the (ordered, nested) state dict, and the destination after
    #      loading into: a zeroed copy; a copy with another key order; a copy without names; a copy with a leaf key renamed (refused)
    def sd_shape(sd):
        out = ["d", list(sd["__batch_size"]), "none" if sd["__device"] is None else str(sd["__device"])]
        for k, v in sd.items():
            if k in ("__batch_size", "__device"):
                continue
            out.append([k, sd_shape(v)] if isinstance(v, dict) else [k, ["l", int(v.reshape(-1)[0])]])
        return out

    def reorder(td, shuffle=True, names=True):
        items = list(td.items())
        if shuffle:
            rng.shuffle(items)
        return TensorDict({k: (reorder(v, shuffle, names) if isinstance(v, TensorDictBase) else v) for k, v in items}, batch_size=td.batch_size, device=td.device,
                          names=list(td.names) if (names and td._has_names()) else None)

    for it in range(60 if quick else 500):
        b = rng.choice([[2], [3], [2, 2], []])
        td = gen(0, b, rng.choice([None, "cpu"]), rng.choice([None, ["t", "u"][: len(b)]]) if b else None, [1])
        if rng.random() < 0.3:
            td.lock_()
        variant = ["zeros", "reordered", "no-names", "renamed-leaf"][it % 4]
        dest = td.apply(torch.zeros_like, filter_empty=False)
        if dest.is_locked:
            dest.unlock_()
        if variant == "reordered":
            dest = reorder(dest)
        elif variant == "no-names":
            dest = reorder(dest, shuffle=False, names=False)     # rebuilt without names at any level
        elif variant == "renamed-leaf":
            leafkeys = [k for k, v in dest.items() if not isinstance(v, TensorDictBase)]
            if not leafkeys:
                continue
            dest.rename_key_(leafkeys[0], "zz")
        dsx = td_sx(dest)
        run.case(("statedict", it, variant))
        run.count("statedict.variant", variant)
        try:
            sd = td.state_dict()
            shape = sd_shape(sd)
            try:
                dest.load_state_dict(sd)
                loaded = tree(dest)
            except RuntimeError as e:
                loaded = "none"
            impl = [shape, loaded]
        except Exception as e:  # noqa: BLE001
            impl = ["err", f"{type(e).__name__}: {str(e)[:120]}"]
        if variant != "renamed-leaf":
            # the property on this input, model-free: the destination now holds the source's keys, nesting, batch sizes and values
            def content(t_):
                return [t_[1], sorted(([k_, content(v_)] if v_[0] == "n" else [k_, v_]) for k_, v_ in t_[5:])] if t_[0] == "n" else t_
            ok_ = impl[0] != "err" and impl[1] != "none" and content(impl[1]) == content(tree(td))
            if ok_:
                run.oracle_ok("roundtrip:state_dict")
            else:
                run.oracle_fail("roundtrip:state_dict", {"td": td_sx(td)[:400], "dest": dsx[:400]},
                                f"load_state_dict(state_dict()) into a {variant} copy does not reproduce the source: {str(impl[1])[:200]}", f"state_dict:nested:{variant}")
        m = parse_sx(drv.ask(sx("c11.statedict", Raw(td_sx(td)), Raw(dsx))))
        run.corr("state_dict(dict, load_state_dict into " + variant + ")", {"td": td_sx(td)[:400], "dest": dsx[:400]}, impl, [m[0], m[1]])

    # ---- to_dict / from_dict vs Model/C11ToDict.lean: the plain nested dict and what from_dict rebuilds from it with the root's
    #      batch size / names / device (also for a sub-tensordict with more batch dims: both sides give it the root's batch size)
    def pd_shape(d):
        return ["d"] + [[k, pd_shape(v)] if isinstance(v, dict) else [k, ["l", int(v.reshape(-1)[0])]] for k, v in d.items()]

    for it in range(40 if quick else 400):
        b = rng.choice([[2], [3], [2, 2]])
        td = gen(0, b, rng.choice([None, "cpu"]), rng.choice([None, ["t", "u"][: len(b)]]), [1])
        if it % 5 == 4:
            td["deep"] = TensorDict({"w": torch.full(b + [2], 90)}, batch_size=b + [2], device=td.device,
                                    names=(list(td.names) + ["z"]) if td._has_names() else None)
        if rng.random() < 0.3:
            td.lock_()
        run.case(("todict", it))
        try:
            d = td.to_dict()
            back = TensorDict.from_dict(d, batch_size=td.batch_size, device=td.device, names=list(td.names) if td._has_names() else None)
            impl = [pd_shape(d), tree(back)]
        except Exception as e:  # noqa: BLE001
            impl = ["err", f"{type(e).__name__}: {str(e)[:120]}"]
        m = parse_sx(drv.ask(sx("c11.todict", Raw(td_sx(td)))))
        run.corr("to_dict(dict, from_dict)", td_sx(td)[:500], impl, [m[0], m[1]])
        # the same through nested namedtuples (fields = keys in order; no names argument on the way back)

        def nt_shape(nt):
            return ["d"] + [[k, nt_shape(v)] if hasattr(v, "_fields") else [k, ["l", int(v.reshape(-1)[0])]] for k, v in zip(nt._fields, nt)]
        try:
            nt = td.to_namedtuple()
            back = TensorDict.from_namedtuple(nt, batch_size=td.batch_size, device=td.device)
            impl = [nt_shape(nt), tree(back)]
        except Exception as e:  # noqa: BLE001
            impl = ["err", f"{type(e).__name__}: {str(e)[:120]}"]
        m = parse_sx(drv.ask(sx("c11.namedtuple", Raw(td_sx(td)))))
        run.corr("to_namedtuple(namedtuple, from_namedtuple)", td_sx(td)[:500], impl, [m[0], m[1]])

    for it in range(60 if quick else 600):
        b = rng.choice([[2], [3], [2, 2], []])
        td = gen(0, b, rng.choice([None, "cpu"]), rng.choice([None, ["t", "u"][: len(b)]]) if b else None, [0])
        if rng.random() < 0.4:
            td.lock_()
        leaves, spec = pytree.tree_flatten(td)
        n = len(leaves)
        new_ids = [100 + i for i in range(n)]
        rebuilt = pytree.tree_unflatten([torch.full_like(l, 100 + i) for i, l in enumerate(leaves)], spec)
        impl = [[int(l.reshape(-1)[0]) for l in leaves], spec_of(spec), tree(rebuilt)]
        m = parse_sx(drv.ask(sx("c11.pytree", Raw(td_sx(td)), new_ids)))
        run.case(("pytree", it))
        run.corr("pytree(leaves, spec, unflatten)", td_sx(td)[:500], impl, [list(m[0]), m[1], m[2]])
