"""C12 stream B: map / map_iter over real process pools vs the Lean model of `_map`, and the property
oracle (what the workers really saw, learnt from in-place marks on the shared-memory input)."""
from __future__ import annotations

import functools
import os
import shutil
import sys

import torch

from common import BUILD, Infra, parse_sx, sx, time_limit
from c12_fns import ask_batched, make_input, make_out, rows_of, seen_chunks, tag_fn
from c12_split import err_kind


DEBUG = bool(os.environ.get("VERIF_DEBUG"))


def gen_case(rng, edge=False):
    rank = rng.choice([1, 1, 2, 2, 3])
    d = rng.randrange(rank)
    n = rng.choice([1, 2, 3, 4, 5, 5, 6, 7])
    shape = [rng.choice([1, 2, 3]) for _ in range(rank)]
    shape[d] = n
    mode = rng.choice(["cs", "cs", "cs", "nc", "nc", "default"])
    c = {
        "shape": shape, "d": d, "dim": d if rng.random() < 0.6 else d - rank,
        "feat": rng.choice([[], [], [2]]),
        "cs": rng.randint(0, n + 1) if mode == "cs" else None,
        "nc": rng.randint(1, n + 1) if mode == "nc" else None,
        "w": rng.randint(1, 4), "gen": rng.random() < 0.5,
        "out": rng.choice(["absent", "absent", "regular", "regular", "regular", "shared", "shared", "memmap"]),
        "fn": rng.choice(["td", "td", "mixed", "mixed", "mixed", "none"]),
        "api": "map", "pool": "shared-pool", "outlen": n,
    }
    if c["out"] == "absent" and rng.random() < 0.35:
        c["api"] = "map_iter"
    c["mask"] = [1 if rng.random() < 0.45 else 0 for _ in range(n)] if c["fn"] == "mixed" else ([1] * n if c["fn"] == "none" else [0] * n)
    c["delays"] = [rng.choice([0, 0, 0, 0.002, 0.004]) for _ in range(n)]
    return c


def model_req(c):
    kind = {"absent": "absent", "regular": "regular", "shared": "shared", "memmap": "shared"}[c["out"]]
    n = c["shape"][c["d"]]
    return sx("c12.map", n, c["cs"], c["nc"], c["w"], c["gen"], kind, c["outlen"] if kind != "absent" else 0, c["mask"])


def canon_model(ans):
    if ans[0] != "ok":
        return ["err", ans[1]]
    return ["ok", ans[1], list(ans[2])]


LAST_ITEMS = {}


def run_impl(c, pool, scratch):
    LAST_ITEMS.clear()
    """returns (canonical answer, input td after the call, out td, x_full)"""
    shape, d, feat = c["shape"], c["d"], c["feat"]
    inp = make_input(shape, d, feat)
    x_full = inp["x"].clone()
    out = None
    if c["out"] != "absent":
        oshape = list(shape)
        oshape[d] = c["outlen"]
        out = make_out(oshape, feat, c["out"], scratch)
    fn = functools.partial(tag_fn, d=d, nd=len(shape), none_mask=tuple(c["mask"]), delays=tuple(c["delays"]), kind=c["fn"])
    kw = dict(chunksize=c["cs"], num_chunks=c["nc"], index_with_generator=c["gen"])
    if c["pool"] == "shared-pool":
        kw["pool"] = pool
    else:
        kw["num_workers"] = c["w"]
        kw["mp_start_method"] = c["pool"]
        kw.update(c.get("extra", {}))
    try:
        with time_limit(120):
            if c["api"] == "map":
                ret = inp.map(fn, c["dim"], out=out, **kw)
                if ret is None:
                    r = "none"
                else:
                    exp_bs = list(shape)
                    if out is not None:
                        exp_bs[d] = c["outlen"]
                    got = rows_of(ret, d, x_full)
                    exp_bs[d] = len(got)
                    r = got if list(ret.batch_size) == exp_bs else ["bad-batch-size", list(ret.batch_size)]
            else:
                items = list(inp.map_iter(fn, c["dim"], **kw))
                rows = []
                per_item = []
                for it in items:
                    if it is None:
                        per_item.append("none")
                        continue
                    if it.batch_dims < len(shape):  # unbound member
                        it = it.unsqueeze(d)
                    per_item.append(rows_of(it, d, x_full))
                    rows += per_item[-1]
                r = rows if rows else "none"
                LAST_ITEMS["items"] = per_item
        ans = ["ok", r, rows_of(out, d, x_full) if out is not None else []]
    except TimeoutError as e:
        raise Infra(f"implementation call timed out: {e}")
    except Exception as e:  # noqa: BLE001
        ans = ["err", err_kind(e), f"{type(e).__name__}: {str(e)[:160]}"]
    return ans, inp, out, x_full


def oracle(run, c, ans, inp):
    """the property on the real run: every row handed to exactly one call, calls on contiguous slices in
    order, every non-None result at the rows of its own slice, None results leave rows untouched/absent"""
    site = "map_equals_sequential"
    n = c["shape"][c["d"]]
    fp = f"{c['api']}:{c['out']}:{c['fn']}"
    if ans[0] == "err":
        run.oracle_fail(site, c, f"raised {ans[2]} (sequential application does not raise)", fp + ":raise:" + ans[1])
        return
    seen = seen_chunks(inp, c["d"])
    for j, (lo, ln, cnt) in enumerate(seen):
        if cnt != 1:
            run.oracle_fail(site, c, f"row {j} was handed to {cnt} calls (seen={seen})", fp + ":coverage")
            return
        if not (lo <= j < lo + max(ln, 1)) or (j > 0 and lo not in (seen[j - 1][0], j)):
            run.oracle_fail(site, c, f"row {j} was in a chunk that is not a contiguous in-order slice (seen={seen})", fp + ":slices")
            return
    flagged = [bool(c["mask"][lo]) for (lo, _, _) in seen]
    want = [None if flagged[j] else [j, seen[j][0], seen[j][1]] for j in range(n)]
    ret, outrows = ans[1], ans[2]
    if c["out"] == "absent":
        exp = [w for w in want if w is not None]
        exp = exp if exp else "none"
        if ret != exp:
            run.oracle_fail(site, c, f"returned rows {ret}, sequential fold gives {exp}", fp + ":ret")
            return
    else:
        exp = ["u" if w is None else w for w in want] + ["u"] * (c["outlen"] - n)
        if outrows != exp:
            run.oracle_fail(site, c, f"out buffer holds {outrows}, sequential fold gives {exp}", fp + ":out")
            return
    run.oracle_ok(site)


def run_map(run, drv):
    import torch.multiprocessing as mp

    torch.set_num_threads(1)
    rng = run.rng
    quick = run.tier == "quick"
    scratch_root = BUILD / "tmp" / f"c12_{run.seed}_{run.tier}"
    shutil.rmtree(scratch_root, ignore_errors=True)
    scratch_root.mkdir(parents=True, exist_ok=True)
    methods = ["fork"] if quick else ["fork", "spawn"]
    try:
        for method in methods:
            ctx = mp.get_context(method)
            pools = {}
            try:
                ncases = (450 if quick else 1500) if method == "fork" else 300
                cases = [gen_case(rng) for _ in range(ncases)]
                # the witness of the Lean counter-example theorem / DESIGN §7 row 15, always replayed
                cases.insert(0, {"shape": [6], "d": 0, "dim": 0, "feat": [], "cs": 1, "nc": None, "w": 2, "gen": False, "out": "regular",
                                 "fn": "mixed", "api": "map", "pool": "shared-pool", "outlen": 6, "mask": [1, 0, 1, 0, 1, 0], "delays": [0] * 6})
                cases.insert(1, {"shape": [2, 5], "d": 1, "dim": -1, "feat": [2], "cs": 2, "nc": None, "w": 2, "gen": True, "out": "shared",
                                 "fn": "mixed", "api": "map", "pool": "shared-pool", "outlen": 5, "mask": [0, 0, 1, 0, 0], "delays": [0] * 5})
                # a few runs through the pool that map creates itself (_proc_init, queue, context manager)
                for i in range(6 if quick else (24 if method == "fork" else 5)):
                    cc = gen_case(rng)
                    cc["pool"] = method
                    # the options of the pool map creates: several threads per worker, progress-bar wrapper, a task limit per worker
                    # that is never reached. (A limit that *is* reached is an excluded point, probed separately in the thorough tier:
                    # upstream's own test of it is skipped as "unstable", see REPORT_C12 §4.)
                    cc["extra"] = [{}, {"worker_threads": 2}, {"max_tasks_per_child": 1000, "worker_threads": 2}, {"pbar": True}][i % 4]
                    cases.append(cc)
                # out buffers longer than the input along the dim (regular: tail untouched)
                for i in range(8 if quick else 40):
                    cc = gen_case(rng)
                    cc["out"], cc["api"] = "regular", "map"
                    cc["outlen"] = cc["shape"][cc["d"]] + 1
                    cases.append(cc)
                answers = [parse_sx(a) for a in ask_batched(drv, [model_req(c) for c in cases])]
                for i, (c, mans) in enumerate(zip(cases, answers)):
                    w = c["w"]
                    if c["pool"] == "shared-pool" and w not in pools:
                        pools[w] = ctx.Pool(w)
                    c["start_method"] = method
                    scratch = scratch_root / f"o{method}{i}"
                    if DEBUG:
                        print("C12 map case", method, i, c, file=sys.stderr, flush=True)
                    ans, inp, out, x_full = run_impl(c, pools.get(w), scratch)
                    n = c["shape"][c["d"]]
                    run.case(("map", method, i, str(c)), nontrivial=True)
                    run.count("map.out", c["out"])
                    run.count("map.fn", c["fn"])
                    run.count("map.api", c["api"] + ("/gen" if c["gen"] else "/eager"))
                    run.count("map.arg", "chunksize0" if c["cs"] == 0 else "chunksize" if c["cs"] is not None else "num_chunks" if c["nc"] is not None else "default")
                    run.count("map.workers", w)
                    run.count("map.start", method if c["pool"] == "shared-pool" else "own-pool-" + method)
                    model = canon_model(mans)
                    impl = ans[:2] if ans[0] == "err" else ans
                    ok = run.corr("map(model)", c, impl, model)
                    if c["api"] == "map_iter" and "items" in LAST_ITEMS:
                        # map_iter item by item: what the iterator yields, in order (None results included)
                        mi = parse_sx(drv.ask(sx("c12.mapiter", n, c["cs"], c["nc"], c["w"], c["gen"], c["mask"])))
                        run.corr("map_iter(items in order)", c, ["ok"] + LAST_ITEMS["items"],
                                 ["ok"] + [("none" if y == "none" else [list(r_) for r_ in y]) for y in mi[1:]] if mi[0] == "ok" else list(mi))
                    oracle(run, c, ans, inp)
                    if i < 3:
                        run.sample({"stream": "map", "case": {k: c[k] for k in ("shape", "dim", "cs", "nc", "w", "gen", "out", "fn", "mask")}, "impl": impl, "model": model})
            finally:
                for p in pools.values():
                    p.terminate()
                    p.join()
        # ---- map_iter(shuffle=True) vs mapIterShuffleModel: torch.randperm is replaced by a known permutation; with one worker
        #      imap_unordered yields in submission order (compared item by item), with two in completion order (compared as a set of chunks)
        from unittest import mock
        from tensordict import TensorDict
        from c12_fns import ident_fn
        ctx = mp.get_context("fork")
        spools = {1: ctx.Pool(1), 2: ctx.Pool(2)}
        try:
            for it in range(16 if quick else 120):
                n = rng.choice([1, 2, 3, 4, 5, 6, 7])
                rank2 = rng.random() < 0.4
                shape, d = ([2, n], 1) if rank2 else ([n], 0)
                view = [1, n] if rank2 else [n]
                td = TensorDict({"r": torch.arange(n).reshape(view).expand(shape).clone()}, shape)
                mode = rng.choice(["cs", "cs", "nc", "default"])
                cs = rng.randint(0, n + 1) if mode == "cs" else None
                nc = rng.randint(1, n + 1) if mode == "nc" else None
                w = rng.choice([1, 2])
                gen = it % 8 != 7
                rp = list(range(n))
                rng.shuffle(rp)
                case = {"shape": shape, "dim": d, "cs": cs, "nc": nc, "w": w, "gen": gen, "rp": rp}
                run.case(("map_iter-shuffle", it, str(case)))

                def fake_randperm(n_, *a, dtype=None, device=None, **k):
                    return torch.tensor(rp[:n_], dtype=dtype or torch.int64)
                try:
                    with time_limit(120), mock.patch.object(torch, "randperm", fake_randperm):
                        items = list(td.map_iter(ident_fn, d, shuffle=True, index_with_generator=gen, pool=spools[w], chunksize=cs, num_chunks=nc))
                    chunks = []
                    for item in items:
                        rr = item["r"]
                        if item.batch_dims < len(shape):
                            rr = rr.unsqueeze(d)
                        chunks.append(rr.select(0, 0).reshape(-1).tolist() if rank2 else rr.reshape(-1).tolist())
                    impl = ["ok"] + (chunks if w == 1 else sorted(chunks))
                except TimeoutError as e:
                    raise Infra(f"map_iter(shuffle) timed out: {e}")
                except RuntimeError as e:
                    impl = ["err", "shuffle-eager" if "Shuffling is not permitted" in str(e) else f"runtime: {str(e)[:80]}"]
                except ZeroDivisionError:
                    impl = ["err", "zerodiv"]
                except Exception as e:  # noqa: BLE001
                    impl = ["err", f"{type(e).__name__}: {str(e)[:80]}"]
                m = parse_sx(drv.ask(sx("c12.mapitershuffle", n, cs, nc, w, gen, rp, list(range(n + 2)))))
                model = ["ok"] + ([list(y) for y in m[1:]] if w == 1 else sorted(list(y) for y in m[1:])) if m[0] == "ok" else list(m)
                run.corr("map_iter(shuffle, known permutation)", case, impl, model)
                if impl[0] == "ok":
                    flat = sorted(x for ch in impl[1:] for x in ch)
                    if flat == list(range(n)):
                        run.oracle_ok("map_iter_shuffle_covers_each_row_once")
                    else:
                        run.oracle_fail("map_iter_shuffle_covers_each_row_once", case, f"rows yielded: {flat}", "shuffle:coverage")
        finally:
            for p_ in spools.values():
                p_.terminate()
                p_.join()
        # ---- edge: empty mapped dim and argument errors (model = error class only; no property claim beyond "same as the model")
        ctx = mp.get_context("fork")
        pool = ctx.Pool(2)
        try:
            edge = []
            for gen in (False, True):
                for kw in ({"cs": 2, "nc": None}, {"cs": 0, "nc": None}, {"cs": None, "nc": 2}, {"cs": None, "nc": None}, {"cs": 1, "nc": 1}):
                    for shape, d in (([0], 0), ([0, 2], 0), ([2, 0], 1)):
                        if kw["cs"] == 1 and kw["nc"] == 1:
                            shape = [3 if s == 0 else s for s in shape]
                        edge.append({"shape": shape, "d": d, "dim": d, "feat": [], "w": 2, "gen": gen, "out": "absent", "fn": "td", "api": "map",
                                     "pool": "shared-pool", "outlen": shape[d], "mask": [0] * shape[d], "delays": [], **kw})
            answers = [parse_sx(a) for a in ask_batched(drv, [model_req(c) for c in edge])]
            for c, mans in zip(edge, answers):
                ans, inp, out, x_full = run_impl(c, pool, None)
                run.case(("map-edge", str(c)), nontrivial=False)
                model = canon_model(mans)
                if ans[0] == "ok" and ans[1] != "none":
                    ans = ["ok", [], []]          # an empty result tensordict: no rows
                if model[0] == "ok" and model[1] == []:
                    pass
                # eager mode on an empty dim returns fn(empty chunk) (zero rows); generator mode returns None: both are "no rows"
                norm = lambda a: ["ok", "norows"] if a[0] == "ok" and a[1] in ("none", []) else a[:2]
                run.corr("map-edge(model)", c, norm(ans), norm(model))
                if ans[0] == "err" and c["shape"][c["d"]] == 0 and ans[1] in ("zerodiv", "chunks"):
                    run.oracle_fail("map_empty_dim", c, f"raised {ans[2]} on an empty mapped dim (chunksize path returns no rows)", "empty-dim:" + ans[1])
                else:
                    run.oracle_ok("map_empty_dim")
        finally:
            pool.terminate()
            pool.join()
    finally:
        shutil.rmtree(scratch_root, ignore_errors=True)


PROBE_MTPC = """
import sys, torch
from tensordict import TensorDict

def fn(td):
    return td.apply(lambda x: x + 1)

if __name__ == "__main__":
    td = TensorDict({"x": torch.arange(12.).reshape(6, 2)}, [6])
    r = td.map(fn, dim=0, num_workers=2, chunksize=1, max_tasks_per_child=1, mp_start_method=sys.argv[1])
    assert (r["x"] == td["x"] + 1).all()
    print("PROBE-OK")
"""


def probe_max_tasks_per_child(run):
    """excluded point (thorough tier, in a process of its own): a per-worker task limit that is *reached*. The pool then starts
    replacement workers, whose initializer waits for a worker id that was never queued (`_proc_init`: `queue.get(timeout=120)` on a
    queue filled once with `num_workers` ids), and a worker that exits right after its last task takes with it the file descriptors of the
    tensors it returned (torch's file_descriptor sharing needs the producer alive). Upstream skips its own test of the option as
    unstable. Reported as a known finding when it hangs or raises; not part of the random stream."""
    import os
    import subprocess
    from common import VERIF
    env = dict(os.environ)
    repo = os.environ.get("VERIF_REPO", "/repo")
    env["PYTHONPATH"] = repo + os.pathsep + env.get("PYTHONPATH", "")
    script = BUILD / "tmp" / f"c12_probe_{run.seed}_{run.tier}.py"
    script.parent.mkdir(parents=True, exist_ok=True)
    script.write_text(PROBE_MTPC)
    try:
        for method in ("fork",):
            run.case(("excluded", "max_tasks_per_child", method), nontrivial=False)
            # a session of its own: on a hang the whole group (the probe and the pool workers it started) is killed
            proc = subprocess.Popen([sys.executable, str(script), method], env=env, stdout=subprocess.PIPE, stderr=subprocess.PIPE, text=True,
                                    start_new_session=True)
            try:
                out, err = proc.communicate(timeout=45)
                what = "ok" if "PROBE-OK" in out else "raised: " + (err.strip().splitlines() or ["?"])[-1][:160]
            except subprocess.TimeoutExpired:
                what = "hangs (no result after 45 s for 6 one-row chunks)"
            finally:
                import signal
                try:
                    os.killpg(proc.pid, signal.SIGKILL)
                except (ProcessLookupError, PermissionError):
                    pass
                try:
                    proc.communicate(timeout=10)
                except Exception:  # noqa: BLE001
                    pass
            run.count("excluded.max_tasks_per_child", what.split(":")[0].split(" ")[0])
            if what == "ok":
                run.oracle_ok("excluded_point(max_tasks_per_child)")
            else:
                run.oracle_fail("excluded_point", {"name": "max_tasks_per_child", "start_method": method},
                                f"map(chunksize=1, num_workers=2, max_tasks_per_child=1) on 6 rows {what}", "excluded:max-tasks-per-child")
    finally:
        script.unlink(missing_ok=True)


def run_map_ext(run):
    """extended domain (oracle only): lazy stacks and tensorclasses as map inputs, and map_iter(shuffle=True)"""
    import torch.multiprocessing as mp
    from tensordict import LazyStackedTensorDict, TensorDict, tensorclass
    from c12_fns import affine_fn
    import c11_trips
    from c11_canon import canon, first_diff
    rng = run.rng
    quick = run.tier == "quick"
    torch.set_num_threads(1)
    pool = mp.get_context("fork").Pool(2)
    opts = dict(lock=False, names=False, device=False)

    def nts_as_nt(c):
        """a NonTensorStack whose entries are all the same value is the stacked form of one NonTensorData (what chunksize=0 +
        restacking produces for the non-tensor fields of a tensorclass): same content, representation is C16's subject"""
        if isinstance(c, list):
            if len(c) == 3 and c[0] == "NTS":
                import ast
                try:
                    flat = ast.literal_eval(c[1])
                    while isinstance(flat, list) and flat and all(x == flat[0] for x in flat):
                        flat = flat[0]
                    if not isinstance(flat, list):
                        return ["NT", repr(flat), c[2], None]
                except Exception:  # noqa: BLE001
                    pass
            return [nts_as_nt(x) for x in c]
        return c

    try:
        for it in range(40 if quick else 300):
            kind = ["lazy0", "lazy1", "tensorclass", "shuffle"][it % 4]
            n = rng.randint(1, 6)
            other = rng.choice([1, 2, 3])
            if kind == "lazy0":
                td = LazyStackedTensorDict(*[TensorDict({"x": torch.arange(other * 2).reshape(other, 2) + 100 * i, "n": {"y": torch.full((other,), i)}}, [other]) for i in range(n)], stack_dim=0)
                dim = rng.choice([0, 1, -2])
            elif kind == "lazy1":
                td = LazyStackedTensorDict(*[TensorDict({"x": torch.arange(other * 2).reshape(other, 2) + 100 * i}, [other]) for i in range(n)], stack_dim=1)
                dim = rng.choice([0, 1, -1])
            elif kind == "tensorclass":
                td = c11_trips.tc_cls()(u=torch.arange(n * other * 2.0).reshape(n, other, 2), v=torch.arange(n * other).reshape(n, other), tag="T", batch_size=[n, other])
                dim = rng.choice([0, 1])
            else:
                td = TensorDict({"x": torch.arange(n * other).reshape(n, other), "r": torch.arange(n).reshape(n, 1).expand(n, other).clone()}, [n, other])
                dim = 0
            size = td.batch_size[dim]
            mode = rng.choice(["cs", "nc", "default"])
            kw = dict(chunksize=rng.randint(0 if kind != "shuffle" else 1, size + 1)) if mode == "cs" else dict(num_chunks=rng.randint(1, size + 1)) if mode == "nc" else {}
            gen = rng.random() < 0.5
            case = {"kind": kind, "batch": list(td.batch_size), "dim": dim, "gen": gen, **kw}
            run.case(("map-ext", it, str(case)))
            run.count("mapext.kind", kind)
            try:
                with time_limit(180):
                    if kind == "shuffle":
                        items = list(td.map_iter(affine_fn, dim, shuffle=True, pool=pool, index_with_generator=True, **kw))
                        rows = []
                        for c in items:
                            rows += [(int(r["r"][0]) // 2, r["x"].tolist()) for r in (c.unbind(0) if c.batch_dims == 2 else [c])]
                        exp = sorted((i, (td["x"][i] * 2 + 1).tolist()) for i in range(n))
                        diff = None if sorted(rows) == exp else f"rows returned {sorted(rows)} != every row once {exp}"
                    else:
                        ret = td.map(affine_fn, dim, pool=pool, index_with_generator=gen, **kw)
                        want = affine_fn(td)
                        if kind == "tensorclass":
                            diff = first_diff(nts_as_nt(canon(want, **opts)), nts_as_nt(canon(ret, **opts))) if type(ret) is type(want) else f"returned a {type(ret).__name__}"
                        else:
                            diff = first_diff(canon(want.to_tensordict(), **opts), canon(ret.to_tensordict(), **opts))
            except TimeoutError as e:
                raise Infra(f"map timed out: {e}")
            except Exception as e:  # noqa: BLE001
                diff = f"raised {type(e).__name__}: {str(e)[:150]}"
            if diff is None:
                run.oracle_ok("map_equals_sequential(ext)")
            else:
                tag = "raise-" + "".join(ch if ch.isalnum() else "-" for ch in diff[7:45]) if diff.startswith("raised") else "differs"
                run.oracle_fail("map_equals_sequential(ext)", case, f"map over a {kind} input: {diff}", f"mapext:{kind}:{tag}")
    finally:
        pool.terminate()
        pool.join()


def replay_cases(run, drv, cases, stream="map(replay)"):
    """re-run recorded map cases (corpus entries, or the failures of a replay file): correspondence + oracle"""
    import torch.multiprocessing as mp
    torch.set_num_threads(1)
    cases = [c for c in cases if isinstance(c, dict) and "shape" in c and "mask" in c]
    if not cases:
        return 0
    ctx = mp.get_context("fork")
    pools = {}
    scratch_root = BUILD / "tmp" / f"c12r_{run.seed}_{run.tier}"
    shutil.rmtree(scratch_root, ignore_errors=True)
    scratch_root.mkdir(parents=True, exist_ok=True)
    try:
        answers = [parse_sx(a) for a in ask_batched(drv, [model_req(c) for c in cases])]
        for i, (c, mans) in enumerate(zip(cases, answers)):
            method = c.get("start_method", "fork")
            if c["pool"] == "shared-pool" and (method, c["w"]) not in pools:
                pools[(method, c["w"])] = mp.get_context(method).Pool(c["w"])
            ans, inp, out, x_full = run_impl(c, pools.get((method, c["w"])), scratch_root / f"r{i}")
            run.case(("map-replay", i, str(c)))
            model = canon_model(mans)
            n = c["shape"][c["d"]]
            if n == 0:
                norm = lambda a: ["ok", "norows"] if a[0] == "ok" and a[1] in ("none", []) else a[:2]  # noqa: E731
                if ans[0] == "ok" and ans[1] != "none":
                    ans = ["ok", [], []]
                run.corr(stream, c, norm(ans), norm(model))
                if ans[0] == "err":
                    run.oracle_fail("map_empty_dim", c, f"raised {ans[2]} on an empty mapped dim", "empty-dim:" + ans[1])
                else:
                    run.oracle_ok("map_empty_dim")
                continue
            run.corr(stream, c, ans[:2] if ans[0] == "err" else ans, model)
            oracle(run, c, ans, inp)
    finally:
        for p in pools.values():
            p.terminate()
            p.join()
        shutil.rmtree(scratch_root, ignore_errors=True)
    return len(cases)


def run_seeding(run):
    """`map` / `map_iter` that make their own pool (`pool=None`): every worker is initialised by `_proc_init` with the seed
    `base + worker_id`, `worker_id` one of 0 … num_workers-1 handed out once each, `base` drawn from the `generator` argument, and with
    `worker_threads` intra-op threads. Seen from the results: every chunk reports a seed in {base + i}, the numpy state that goes with that seed
    (two chunks with the same torch seed report the same numpy word, different seeds different words), the requested thread count; the same
    generator state gives the same base (so a second run reports seeds from the same set), another state another base."""
    from tensordict import TensorDict
    from c12_fns import seed_fn
    rng = run.rng
    quick = run.tier == "quick"
    for it in range(3 if quick else 12):
        w = rng.choice([2, 3])
        n = rng.choice([6, 8])
        wt = rng.choice([1, 2])
        gseed = rng.randint(0, 10**6)
        api = ["map", "map_iter"][it % 2]
        case = {"api": api, "num_workers": w, "rows": n, "worker_threads": wt, "generator_seed": gseed}
        run.case(("seeding", it, api, w, n, wt))
        td = TensorDict({"x": torch.arange(float(n))}, [n])

        def once(seed_):
            g = torch.Generator()
            g.manual_seed(seed_)
            g2 = torch.Generator()
            g2.set_state(g.get_state())
            base = torch.empty((), dtype=torch.int64).random_(generator=g2).item()
            with time_limit(150):
                if api == "map":
                    r = td.map(seed_fn, dim=0, num_workers=w, chunksize=1, generator=g, worker_threads=wt, mp_start_method="fork")
                else:
                    r = torch.cat(list(td.map_iter(seed_fn, dim=0, num_workers=w, chunksize=1, generator=g, worker_threads=wt, mp_start_method="fork")), 0)
            by_pid = set(zip(r["pid"].tolist(), r["seed"].tolist()))
            if len({p_ for p_, _ in by_pid}) != len(by_pid) or len({s_ for _, s_ in by_pid}) != len(by_pid):
                raise AssertionError(f"worker processes and seeds do not go one-to-one: (pid, seed) = {sorted(by_pid)}")
            return base, r["seed"].tolist(), r["np"].tolist(), r["threads"].tolist()

        problems = []
        try:
            base, seeds, nps, threads = once(gseed)
            allowed = {base + i for i in range(w)}
            if not set(seeds) <= allowed:
                problems.append(f"chunks report torch seeds {sorted(set(seeds))}, expected a subset of base + 0..{w - 1} = {sorted(allowed)}")
            pairs = set(zip(seeds, nps))
            if len({s for s, _ in pairs}) != len(pairs) or len({p for _, p in pairs}) != len(pairs):
                problems.append(f"numpy states do not go one-to-one with the torch seeds: {sorted(pairs)}")
            if set(threads) != {wt}:
                problems.append(f"workers ran with {sorted(set(threads))} intra-op threads, asked for {wt}")
            base2, seeds2, nps2, _ = once(gseed)
            if base2 != base or not set(seeds2) <= allowed or not set(zip(seeds2, nps2)) <= pairs | {(s, p) for s, p in zip(seeds2, nps2) if s not in {a for a, _ in pairs}}:
                problems.append(f"a second run from the same generator state reports seeds {sorted(set(seeds2))}, first run allowed {sorted(allowed)}")
            base3, seeds3, _, _ = once(gseed + 1)
            if set(seeds3) & allowed and base3 == base:
                problems.append("another generator state gives the same seeds")
        except TimeoutError as e:
            raise Infra(f"seeded map timed out: {e}")
        except Exception as e:  # noqa: BLE001
            problems.append(f"raised {type(e).__name__}: {str(e)[:150]}")
        if not problems:
            run.oracle_ok("worker_seeding")
        else:
            run.oracle_fail("worker_seeding", case, f"{api}(generator=…, num_workers={w}, worker_threads={wt}): " + "; ".join(problems[:3]), "seeding")
