"""C07 — the sentinel / storage probe on the real library, and the abstraction of the real memory
state into the storage model's vocabulary (storage id, element offsets, values read through handles).

Everything the model is told about an operation is *values* (provenance by value); everything it is
compared on is *addresses* (storage id + element offsets of every leaf) and what every previously
held handle reads after the operation and after sentinel writes.  See lean/TdVerif/Model/C07Storage.lean.
"""
from __future__ import annotations

import math
import os
import shutil
import tempfile
import warnings

import torch

from common import BUILD, err_class, sx, parse_sx, time_limit

warnings.filterwarnings("ignore")

DT = torch.float64
KINDS = ["regular", "nested", "lazy", "sub", "tensorclass", "memmap", "shared", "params", "locked"]
LAYOUTS = ["contiguous", "strided", "expanded", "offset", "zero_feat", "zero_batch", "mixed", "nontensor", "dtypes"]
LOCKED_KINDS = ("memmap", "shared", "params", "locked")


# ----------------------------------------------------------------------------------------------- values
class Tokens:
    """values travel as small integers: equal token <=> bit-identical value of the same dtype"""

    def __init__(self):
        self.d = {}

    def tok(self, dtype, v):
        if isinstance(v, float):
            key = (str(dtype), "nan" if math.isnan(v) else repr(v))
        elif isinstance(v, complex):
            key = (str(dtype), repr(v))
        else:
            key = (str(dtype), repr(v))
        t = self.d.get(key)
        if t is None:
            t = self.d[key] = len(self.d) + 1
        return t

    def read(self, t: torch.Tensor):
        if t.numel() == 0:
            return []
        try:
            flat = t.detach().reshape(-1).tolist()
        except Exception:
            flat = t.detach().to(torch.float64).reshape(-1).tolist()
        return [self.tok(t.dtype, v) for v in flat]


class Counter:
    def __init__(self, start=1.0):
        self.v = start

    def take(self, n):
        out = torch.arange(self.v, self.v + n, dtype=DT)
        self.v += n
        return out


# ----------------------------------------------------------------------------------------------- leaves
def _numel(shape):
    n = 1
    for s in shape:
        n *= s
    return n


def make_leaf(shape, layout, cnt: Counter):
    """a float64 tensor of `shape` with globally distinct cell values in the requested layout"""
    shape = tuple(shape)
    n = _numel(shape)
    if layout == "contiguous" or n == 0:
        return cnt.take(n).reshape(shape).clone()   # a base tensor, not a view
    if layout == "strided":
        return cnt.take(n * 2).reshape(shape + (2,))[..., 1]
    if layout == "expanded":
        if len(shape) >= 1 and shape[0] > 1:
            return cnt.take(n // shape[0]).reshape((1,) + shape[1:]).expand(shape)
        return cnt.take(n).reshape(shape)
    if layout == "offset":
        return cnt.take(n + 5)[3:3 + n].view(shape)
    raise ValueError(layout)


def elem_offsets(t: torch.Tensor):
    """storage offset (in elements of t's dtype) of every logical element, row-major"""
    if t.numel() == 0:
        return []
    off = torch.full((), t.storage_offset(), dtype=torch.int64)
    for d in range(t.dim()):
        off = off.unsqueeze(-1) + torch.arange(t.shape[d], dtype=torch.int64) * t.stride(d)
    return off.reshape(-1).tolist()


def is_plain(t):
    return isinstance(t, torch.Tensor) and t.layout == torch.strided and not t.is_nested


def leaves_of(x, prefix=""):
    """ordered list (name, tensor) of the existing tensors behind a result / container"""
    from tensordict import LazyStackedTensorDict, TensorDictBase, is_tensorclass, is_tensor_collection
    out = []
    if x is None:
        return out
    if isinstance(x, torch.Tensor):
        if is_plain(x):
            out.append((prefix + "_", x))
        return out
    if isinstance(x, LazyStackedTensorDict):
        for i, m in enumerate(x.tensordicts):
            out += leaves_of(m, f"{prefix}{i}:")
        return out
    if is_tensorclass(x):
        try:
            from tensordict import NonTensorData
            if isinstance(x, NonTensorData):
                return out
        except Exception:
            pass
        return leaves_of(x._tensordict, prefix)
    if isinstance(x, TensorDictBase):
        for k in x.keys(True, True, is_leaf=None):
            try:
                v = x.get(k)
            except Exception:
                continue
            name = k if isinstance(k, str) else ".".join(k)
            if isinstance(v, torch.Tensor) and is_plain(v):
                out.append((prefix + name, v))
            elif is_tensor_collection(v) and isinstance(v, LazyStackedTensorDict):
                out += leaves_of(v, prefix + name + ".")
        return out
    if isinstance(x, dict):
        for k, v in x.items():
            out += leaves_of(v, f"{prefix}{k}.") if not isinstance(v, torch.Tensor) else ([(prefix + str(k), v)] if is_plain(v) else [])
        return out
    if isinstance(x, (list, tuple)):
        for i, v in enumerate(x):
            out += leaves_of(v, f"{prefix}{i}:")
        return out
    if hasattr(x, "__iter__") and not isinstance(x, (str, bytes)):
        try:
            items = list(x)
        except Exception:
            return out
        if len(items) > 64:
            return out
        for i, v in enumerate(items):
            out += leaves_of(v, f"{prefix}{i}:")
        return out
    return out


# ----------------------------------------------------------------------------------------------- containers
_TC = None


def tc_class():
    global _TC
    if _TC is None:
        from tensordict import TensorDict, tensorclass

        @tensorclass
        class C07Tc:
            a: torch.Tensor
            b: torch.Tensor
            n: TensorDict = None
            z: torch.Tensor = None
        _TC = C07Tc
    return _TC


def leaf_layout(layout, rng):
    if layout == "mixed":
        return rng.choice(["contiguous", "strided", "expanded", "offset"])
    if layout in ("zero_feat", "zero_batch", "nontensor", "dtypes"):
        return "contiguous"
    return layout


def build_plain(bs, layout, cnt, rng, nested, zero_feat):
    from tensordict import TensorDict
    d = {"a": make_leaf(bs, leaf_layout(layout, rng), cnt), "b": make_leaf(tuple(bs) + (2,), leaf_layout(layout, rng), cnt)}
    if nested:
        d["n"] = TensorDict({"x": make_leaf(tuple(bs) + (1,), leaf_layout(layout, rng), cnt)}, batch_size=bs)
    if zero_feat:
        d["z"] = torch.zeros(tuple(bs) + (0,), dtype=DT)
    if layout == "dtypes":
        # entries of several dtypes (the library has dtype / tensor-type specific fast paths, e.g. in _clone_recurse)
        d["b"] = d["b"].to(torch.int64)
        d["f"] = make_leaf(tuple(bs) + (1,), "contiguous", cnt).to(torch.float32)
        d["m"] = (make_leaf(tuple(bs), "contiguous", cnt) % 2 == 0)
    # with an explicit device the library takes other code paths (e.g. clone -> _clone_recurse)
    out = TensorDict(d, batch_size=bs, device="cpu" if layout == "dtypes" else None)
    if layout == "nontensor":
        out.set_non_tensor("tag", "meta")      # a non-tensor entry next to the tensors
    return out


class Container:
    """one tensordict of a given kind/layout plus what is needed to clean up"""

    def __init__(self, kind, layout, rng, cnt=None, tmp=None):
        from tensordict import LazyStackedTensorDict, TensorDict
        self.kind, self.layout = kind, layout
        self.cnt = cnt or Counter()
        self.tmp = tmp
        bs = (2, 0) if layout == "zero_batch" else (2, 3)
        zf = layout == "zero_feat"
        self.extra = []  # tensors that must stay alive / be watched (e.g. the source of a sub-tensordict)
        if kind == "regular":
            self.td = build_plain(bs, layout, self.cnt, rng, False, zf)
        elif kind == "nested":
            self.td = build_plain(bs, layout, self.cnt, rng, True, zf)
        elif kind == "lazy":
            # member count 2 (usual), 1 (a stack of ONE tensordict: stacking one tensor must still copy), and a stack of stacks
            shape_kind = rng.choice(["two", "two", "one", "one_of_one", "two_of_one"])
            nmem = 1 if shape_kind in ("one", "one_of_one") else bs[0]
            ms = [build_plain(bs[1:], layout, self.cnt, rng, i == 7, zf) for i in range(nmem)]
            if shape_kind in ("one_of_one", "two_of_one"):
                ms = [LazyStackedTensorDict(m, stack_dim=0) for m in ms]      # every member is itself a 1-member stack
            self.td = LazyStackedTensorDict(*ms, stack_dim=0)
            self.lazy_shape = shape_kind
        elif kind == "sub":
            big = build_plain((4,) + tuple(bs[1:]), layout, self.cnt, rng, False, zf)
            self.source = big
            self.td = big._get_sub_tensordict(slice(1, 3))
            self.extra = leaves_of(big, "src:")
        elif kind == "tensorclass":
            inner = build_plain(bs, "contiguous" if layout in ("nontensor", "dtypes") else layout, self.cnt, rng, True, zf)   # the class has no field for the extra entries
            self.td = tc_class().from_tensordict(inner)
        elif kind == "memmap":
            inner = build_plain(bs, "contiguous" if layout not in ("zero_feat", "zero_batch") else layout, self.cnt, rng, True, False)
            d = tempfile.mkdtemp(prefix="c07mm_", dir=str(self.tmp))
            self.prefix = d
            self.td = inner.memmap_(prefix=d)
        elif kind == "shared":
            inner = build_plain(bs, layout if layout in ("contiguous", "zero_batch", "zero_feat") else "contiguous", self.cnt, rng, True, zf)
            self.td = inner.share_memory_()
        elif kind == "locked":
            # a locked tensordict whose memoised reads (@cache: _items_list, _values_list, keys ...) are warm
            self.td = build_plain(bs, layout, self.cnt, rng, True, zf).lock_()
            for args in ((True, True), (False, False), (True, False)):
                self.td._items_list(*args)
                self.td._values_list(*args)
            list(self.td.keys(True, True))
        elif kind == "params":
            from tensordict import TensorDictParams
            inner = build_plain(bs, layout, self.cnt, rng, True, zf)
            self.td = TensorDictParams(inner)      # leaves become nn.Parameter (sharing the storage of the given tensors)
        else:
            raise ValueError(kind)

    @property
    def locked(self):
        return self.kind in LOCKED_KINDS


# ----------------------------------------------------------------------------------------------- world abstraction
class World:
    """the abstraction function: live tensors -> (sid, offs, reads); sids by first appearance"""

    def __init__(self):
        self.tok = Tokens()
        self.sids = {}       # data_ptr | ("file", filename) -> sid
        self.ptr2file = {}   # data_ptr of a mapping -> its file
        self.keep = []       # keep every tensor alive so that addresses are never recycled within a case
        self.empty_n = 0

    def sid_of(self, t, create=True):
        """storage identity: the memory-mapped FILE when the tensor is (a view of) a memory-mapped tensor — two mappings of
        one file are one storage, writes through one are read through the other —, else the address of the storage"""
        if t.numel() == 0:
            return None
        p = t.untyped_storage().data_ptr()
        try:
            fn = getattr(t, "filename", None)       # the property raises for a MemoryMappedTensor without file (shared memory)
            fn = str(fn) if fn is not None else None
        except Exception:
            fn = None
        if fn is not None:
            self.ptr2file[p] = fn
        key = ("file", self.ptr2file[p]) if p in self.ptr2file else p
        s = self.sids.get(key)
        if s is None and create:
            s = self.sids[key] = len(self.sids)
        return s

    def desc(self, t, create=True):
        self.keep.append(t)
        return self.sid_of(t, create), elem_offsets(t)


def canon_real_obj(world: World, n0, leaves):
    out = []
    for name, t in leaves:
        sid, offs = world.desc(t, create=True)
        reads = world.tok.read(t)
        if not offs:
            out.append([name, "empty"])
        elif sid < n0:
            out.append([name, sid, offs, reads])
        else:
            out.append([name, "new", reads])
    return sorted(out, key=lambda l: l[0])


def canon_model_obj(obj):
    out = []
    for leaf in obj[1:]:
        name, sid, offs, reads = leaf
        name = str(name)
        if not reads and not offs and sid != "new":
            out.append([name, "empty"])
        elif sid == "new":
            out.append([name, "empty"] if not reads else [name, "new", reads])
        else:
            out.append([name, sid, offs, reads])
    return sorted(out, key=lambda l: l[0])
