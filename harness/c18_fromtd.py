"""C18: the key validation of `_from_tensordict` (tensordict/tensorclass.py) on both branches of its `is_compiling()`
test (forced by patching `tensordict.tensorclass.is_compiling`).  Model = Model/FromTd.lean.
Streams  from_td_eager / from_td_compile : KeyError / ValueError / the final non-tensor dict as sorted (key, value is None)
oracle   from_td : both branches give the same outcome (theorem from_tensordict_branches_agree)."""
from __future__ import annotations

import unittest.mock as mock

import torch

from common import parse_sx
from tensordict import TensorDict, tensorclass


@tensorclass
class FT:
    a: torch.Tensor
    b: torch.Tensor
    s: str
    t: str


def _run(td, nt):
    try:
        tc = FT._from_tensordict(td, None if nt is None else dict(nt))
    except KeyError:
        return "KeyError"
    except ValueError:
        return "ValueError"
    except Exception as e:
        return "err:" + type(e).__name__
    d = tc.__dict__["_non_tensordict"]
    return ["ok"] + sorted([k, "none" if v is None else "val"] for k, v in d.items())


def from_td(run):
    import importlib
    T = importlib.import_module("tensordict.tensorclass")   # (the package attribute `tensordict.tensorclass` is the decorator)

    drv = run._drv
    rng = run.rng
    fields = ["a", "b", "s", "t"]
    exp = [k for k in FT.__expected_keys__]
    cases = [(["a"], {"s": "v"}), (["a", "s"], {"s": "v"}), (["a", "s"], {"s": None}), (["a", "zz"], None), ([], None), (["a", "b"], {}),
             (["a"], {"yy": 1}), (["a", "b", "s", "t"], {"s": None, "t": None})]
    n = 300 if run.tier == "quick" else 5000
    for _ in range(n):
        tk = [k for k in fields if rng.random() < 0.5]
        if rng.random() < 0.15:
            tk.append("zz")
        rng.shuffle(tk)
        if rng.random() < 0.25:
            nt = None
        else:
            keys = [k for k in fields + ["yy"] if rng.random() < (0.45 if k != "yy" else 0.08)]
            rng.shuffle(keys)
            nt = {k: (None if rng.random() < 0.5 else "v") for k in keys}
        cases.append((tk, nt))
    reqs = []
    for tk, nt in cases:
        nts = "none" if nt is None else "(" + " ".join(f"({k} {'none' if v is None else 'val'})" for k, v in nt.items()) + ")"
        reqs.append("(c18.from_td (" + " ".join(tk) + ") (" + " ".join(exp) + ") " + nts + ")")
    answers = drv.ask_many(reqs)
    for (tk, nt), req, ans in zip(cases, reqs, answers):
        m = parse_sx(ans)
        cm = [(x if isinstance(x, str) else ["ok"] + sorted(list(e) for e in x[1:])) for x in m]
        outs = []
        for comp in (False, True):
            td = TensorDict({k: torch.zeros(2) for k in tk}, batch_size=[2])
            with mock.patch.object(T, "is_compiling", lambda c=comp: c):
                outs.append(_run(td, nt))
        run.case(("from_td", req))
        run.count("from_td.outcome", outs[0] if isinstance(outs[0], str) else "ok")
        run.corr("from_td_eager", req, outs[0], cm[0])
        run.corr("from_td_compile", req, outs[1], cm[1])
        if outs[0] != outs[1]:
            run.oracle_fail("from_td", req, f"eager branch={outs[0]} compile branch={outs[1]}", "from_td")
        else:
            run.oracle_ok("from_td")
    run.sample({"stream": "from_td", "case": reqs[0], "model": answers[0]})
