"""Shared plumbing for every property check (see DESIGN.md §4).

A check module does, in order:

    run = Run("C18")                       # reads VERIF_SEED / VERIF_TIER
    run.regen(...)                         # (optional) regenerate Gen/*.lean from /repo
    run.build_and_audit(["TdVerif.Props.C18"])   # lake build + #print axioms + forbidden-token grep
    drv = run.driver()                     # compiled Lean model behind the line protocol
    ... correspondence:  run.corr(stream, case, impl_answer, model_answer)
    ... oracle:          run.oracle_fail(site, case, what) / run.oracle_ok(...)
    run.finish()                           # known-findings, verdict, evidence, exit code

Exit codes: 0 held, 1 VIOLATION (line printed), 2 infrastructure problem (never a violation).
"""
from __future__ import annotations

import contextlib
import json
import os
import random
import re
import signal
import subprocess
import sys
import time
from collections import Counter
from pathlib import Path

VERIF = Path(__file__).resolve().parent.parent
LEAN = VERIF / "lean"
REPO = Path(os.environ.get("VERIF_REPO", "/repo"))
BUILD = VERIF / ".build"
ALLOWED_AXIOMS = {"propext", "Classical.choice", "Quot.sound"}
FORBIDDEN = re.compile(r"\bsorry\b|\badmit\b|^\s*axiom\s|native_decide|bv_decide|implemented_by|\bunsafe\s|maxHeartbeats\s+0|\bpartial\s+def")
# `partial def` is forbidden in Model/Props/Gen/Lemmas (allowed only in Sexp/Drive/Driver: I/O glue)

os.environ.setdefault("TENSORDICT_VERIF", "1")


class Infra(Exception):
    """infrastructure problem: exit 2, never a violation"""


# --------------------------------------------------------------------------- s-expressions
_SAFE = re.compile(r"^[A-Za-z0-9_.:+\-/*<>=!?%]+$")


def atom(x) -> str:
    if x is None:
        return "none"
    if isinstance(x, bool):
        return "true" if x else "false"
    if isinstance(x, int):
        return str(x)
    s = str(x)
    if s and _SAFE.match(s) and s not in ("none", "true", "false"):
        return s
    return "x" + s.encode().hex()  # anything unusual travels hex-escaped


def sx(*items) -> str:
    """sx('cmd', 1, [1,2], None) -> '(cmd 1 (1 2) none)'; nested lists/tuples become lists."""
    def enc(it):
        if isinstance(it, (list, tuple)):
            return "(" + " ".join(enc(i) for i in it) + ")"
        if isinstance(it, Raw):
            return it.s
        return atom(it)
    return "(" + " ".join(enc(i) for i in items) + ")"


class Raw:
    def __init__(self, s):
        self.s = s


def parse_sx(s: str):
    toks = s.replace("(", " ( ").replace(")", " ) ").split()
    pos = 0

    def rd():
        nonlocal pos
        t = toks[pos]
        pos += 1
        if t == "(":
            out = []
            while toks[pos] != ")":
                out.append(rd())
            pos += 1
            return out
        if re.fullmatch(r"-?\d+", t):
            return int(t)
        return t
    v = rd()
    return v


# --------------------------------------------------------------------------- timeouts
@contextlib.contextmanager
def time_limit(seconds: float):
    """SIGALRM-based guard for implementation calls (the pinned code has non-terminating inputs)."""
    def handler(signum, frame):
        raise TimeoutError(f"call exceeded {seconds}s")
    old = signal.signal(signal.SIGALRM, handler)
    signal.setitimer(signal.ITIMER_REAL, seconds)
    try:
        yield
    finally:
        signal.setitimer(signal.ITIMER_REAL, 0)
        signal.signal(signal.SIGALRM, old)


def err_class(e: BaseException) -> str:
    """map implementation exceptions to the small enum used on both sides"""
    if isinstance(e, TimeoutError):
        return "timeout"
    if isinstance(e, KeyError):
        return "key"
    if isinstance(e, IndexError):
        return "index"
    if isinstance(e, TypeError):
        return "type"
    if isinstance(e, ValueError):
        return "value"
    if isinstance(e, RuntimeError):
        m = str(e).lower()
        if "lock" in m:
            return "lock"
        return "runtime"
    return "other"


# --------------------------------------------------------------------------- lean
def sh(cmd, cwd=None, timeout=3600, env=None):
    p = subprocess.run(cmd, cwd=cwd, shell=isinstance(cmd, str), capture_output=True, text=True, timeout=timeout, env=env)
    return p.returncode, p.stdout + p.stderr


_COMMENT_BLOCK = re.compile(r"/-.*?-/", re.S)


def strip_lean_comments(src: str) -> str:
    src = _COMMENT_BLOCK.sub("", src)
    return "\n".join(l.split("--", 1)[0] for l in src.splitlines())


def lean_sources_for(modules: list[str]) -> list[Path]:
    """transitive TdVerif.* imports of the given modules"""
    seen, todo = {}, list(modules)
    while todo:
        m = todo.pop()
        if m in seen or not m.startswith("TdVerif"):
            continue
        p = LEAN / (m.replace(".", "/") + ".lean")
        if not p.exists():
            raise Infra(f"missing lean module {m}")
        seen[m] = p
        for line in p.read_text().splitlines():
            mm = re.match(r"\s*import\s+(\S+)", line)
            if mm:
                todo.append(mm.group(1))
    return list(seen.values())


def theorem_names(module: str) -> list[str]:
    """fully qualified names of the theorems stated in a Props module (the obligations)"""
    p = LEAN / (module.replace(".", "/") + ".lean")
    src = strip_lean_comments(p.read_text())
    ns = []
    out = []
    for line in src.splitlines():
        m = re.match(r"\s*namespace\s+(\S+)", line)
        if m:
            ns.append(m.group(1))
            continue
        m = re.match(r"\s*end\s+(\S+)", line)
        if m and ns and ns[-1] == m.group(1):
            ns.pop()
            continue
        m = re.match(r"\s*(?:private\s+|protected\s+)?theorem\s+(\S+)", line)
        if m:
            out.append(".".join(ns + [m.group(1)]))
    return out


# --------------------------------------------------------------------------- known findings
def load_known(prop: str):
    p = VERIF / "known_findings.json"
    if not p.exists():
        return []
    data = json.loads(p.read_text())
    return [e for e in data.get("findings", []) if e.get("property") == prop and e.get("status") == "finding"]


# --------------------------------------------------------------------------- the run object
class Driver:
    def __init__(self, exe: Path):
        self.p = subprocess.Popen([str(exe)], stdin=subprocess.PIPE, stdout=subprocess.PIPE, text=True, bufsize=1 << 20)

    def ask_many(self, lines: list[str]) -> list[str]:
        """send all requests from a writer thread while reading the answers (no pipe deadlock whatever the sizes)"""
        if not lines:
            return []
        import threading

        def writer():
            try:
                for i in range(0, len(lines), 500):
                    self.p.stdin.write("\n".join(lines[i:i + 500]) + "\n")
                self.p.stdin.flush()
            except Exception:
                pass
        for l in lines:
            if "\n" in l:
                raise Infra("newline inside a driver request")
        t = threading.Thread(target=writer, daemon=True)
        t.start()
        out = []
        for _ in lines:
            l = self.p.stdout.readline()
            if not l:
                raise Infra("lean driver died")
            out.append(l.rstrip("\n"))
        t.join()
        return out

    def ask(self, line: str) -> str:
        return self.ask_many([line])[0]

    def close(self):
        try:
            self.p.stdin.close()
            self.p.wait(timeout=10)
        except Exception:
            self.p.kill()


class Run:
    def __init__(self, prop: str, argv=None):
        import argparse
        ap = argparse.ArgumentParser()
        ap.add_argument("--tier", default=os.environ.get("VERIF_TIER", "quick"))
        ap.add_argument("--seed", type=int, default=int(os.environ.get("VERIF_SEED", "0")))
        ap.add_argument("--replay", default=None)
        a, _ = ap.parse_known_args(argv)
        self.prop = prop
        self.tier = a.tier if a.tier in ("quick", "thorough") else "quick"
        self.seed = a.seed
        self.replay = a.replay
        if self.replay:
            # a replay re-runs the check with the seed and tier recorded in the replay file (every random choice
            # derives from the seed, so the same cases are regenerated) and prints the recorded failing inputs first
            try:
                rp = json.loads(Path(self.replay).read_text())
                self.seed = int(rp.get("seed", self.seed))
                self.tier = rp.get("tier", self.tier)
                print(f"replaying {self.replay}: kind={rp.get('kind')} seed={self.seed} tier={self.tier}")
                for f in rp.get("failures", [])[:10]:
                    print(f"  recorded failing input [{f.get('site')}]: {json.dumps(f.get('case'), default=str)[:300]} -> {str(f.get('what'))[:200]}")
            except Exception as e:
                raise Infra(f"cannot read replay file {self.replay}: {e}")
        self.rng = random.Random(self.seed * 1000003 + sum(map(ord, prop)))
        self.t0 = time.monotonic()
        self.obligations: list[str] = []
        self.discharged: list[str] = []
        self.proof_broken: list[str] = []        # names of theorems / build steps that no longer check
        self.corr_broken: dict[str, list] = {}   # stream -> list of (case, impl, model)
        self.corr_counts: Counter = Counter()
        self.oracle_fails: list[dict] = []       # {site, case, what}
        self.oracle_counts: Counter = Counter()
        self.dist: dict[str, Counter] = {}
        self.samples: list = []
        self.distinct: set = set()
        self.evaluations = 0
        self.known = load_known(prop)
        self.known_hit: dict[str, dict] = {}
        self.notes: list[str] = []
        self.trusted = [
            "Lean 4.33.0 kernel; axioms of every property theorem are printed by #print axioms on each run and must be within {propext, Classical.choice, Quot.sound}",
            "harness/common.py + this property's check module (generators, canonicalisers, driver pipe)",
        ]
        self.assumptions: list[str] = []
        self._drv = None
        self.checker_cmd = ""

    # ------------------------------------------------------------ bookkeeping
    def count(self, table: str, key, n=1):
        self.dist.setdefault(table, Counter())[str(key)] += n

    def sample(self, s, cap=12):
        if len(self.samples) < cap:
            self.samples.append(s)

    def case(self, key, nontrivial=True):
        """register one explored case; `key` identifies it for distinctness"""
        self.evaluations += 1
        if nontrivial:
            self.distinct.add(key if isinstance(key, (str, int, tuple)) else json.dumps(key, sort_keys=True, default=str))

    # ------------------------------------------------------------ lean side
    def build_and_audit(self, modules: list[str], extra_targets: list[str] | None = None, prop_modules: list[str] | None = None):
        """lake build of the property modules (+driver), forbidden-token grep, axiom audit.
        A failure is recorded as a broken proof obligation (-> failing-input search), not raised."""
        prop_modules = prop_modules or modules
        targets = list(modules) + (extra_targets or []) + [f"driver_{self.prop.lower()}"]
        self.checker_cmd = f"cd {LEAN} && lake build {' '.join(targets)} && lake env lean <audit file with #print axioms for every obligation>"
        for m in prop_modules:
            self.obligations += theorem_names(m)
        rc, out = sh(["lake", "build"] + targets, cwd=LEAN, timeout=3000)
        if rc != 0:
            # which theorems fail? parse error lines `file:line:col: error`
            failed = set()
            for m in re.finditer(r"error: (\S+\.lean):(\d+):(\d+)", out):
                failed.add(self._theorem_at(m.group(1), int(m.group(2))))
            failed.discard(None)
            if not failed:
                failed = {"lake-build"}
            self.proof_broken += sorted(failed)
            self.notes.append("lake build failed:\n" + out[-3000:])
            return False
        # forbidden tokens
        for p in lean_sources_for(modules):
            rel = p.relative_to(LEAN)
            glue = str(rel).startswith("TdVerif/Drive") or str(rel) in ("TdVerif/Sexp.lean",)
            for i, line in enumerate(strip_lean_comments(p.read_text()).splitlines(), 1):
                mm = FORBIDDEN.search(line)
                if mm and not (glue and "partial" in mm.group(0)):
                    self.proof_broken.append(f"forbidden-token:{rel}:{i}:{mm.group(0).strip()}")
        # axiom audit
        BUILD.mkdir(exist_ok=True)
        audit = BUILD / f"Audit_{self.prop}.lean"
        audit.write_text("".join(f"import {m}\n" for m in prop_modules) + "".join(f"#print axioms {t}\n" for t in self.obligations))
        rc, out = sh(["lake", "env", "lean", str(audit)], cwd=LEAN, timeout=1200)
        if rc != 0:
            self.proof_broken.append("axiom-audit")
            self.notes.append("audit failed:\n" + out[-2000:])
            return False
        seen = {}
        for m in re.finditer(r"'([^']+)' depends on axioms: \[([^\]]*)\]|'([^']+)' does not depend on any axioms", out):
            if m.group(1):
                seen[m.group(1)] = {a.strip() for a in m.group(2).split(",")}
            else:
                seen[m.group(3)] = set()
        self.axioms = {k: sorted(v) for k, v in seen.items()}
        for t in self.obligations:
            if t not in seen:
                self.proof_broken.append(f"not-audited:{t}")
            elif not seen[t] <= ALLOWED_AXIOMS:
                self.proof_broken.append(f"axioms:{t}:{sorted(seen[t] - ALLOWED_AXIOMS)}")
            else:
                self.discharged.append(t)
        return not self.proof_broken

    def _theorem_at(self, relpath: str, line: int):
        p = LEAN / relpath
        if not p.exists():
            return None
        last = None
        for i, l in enumerate(p.read_text().splitlines(), 1):
            m = re.match(r"\s*(?:private\s+)?(theorem|def|example|lemma)\s*(\S*)", l)
            if m:
                last = m.group(2) or f"example@{i}"
            if i >= line:
                break
        return f"{relpath}:{last}"

    def leanchecker(self, modules: list[str]):
        """thorough tier: independent re-check of the compiled .olean files"""
        rc, out = sh(["lake", "env", "leanchecker"] + modules, cwd=LEAN, timeout=3000)
        if rc != 0:
            self.proof_broken.append("leanchecker")
            self.notes.append("leanchecker:\n" + out[-2000:])
        else:
            self.notes.append("leanchecker ok: " + " ".join(modules))
        return rc == 0

    def driver(self) -> Driver:
        # one driver executable per property (imports only this property's handlers)
        name = f"driver_{self.prop.lower()}"
        exe = LEAN / f".lake/build/bin/{name}"
        if not exe.exists():
            rc, out = sh(["lake", "build", name], cwd=LEAN, timeout=3000)
            if rc != 0 or not exe.exists():
                raise Infra("cannot build lean driver:\n" + out[-2000:])
        self._drv = Driver(exe)
        return self._drv

    # ------------------------------------------------------------ correspondence / oracle
    def corr(self, stream: str, case, impl, model) -> bool:
        """one correspondence comparison on the modelled domain"""
        self.corr_counts[stream] += 1
        if impl != model:
            self.corr_broken.setdefault(stream, []).append({"case": case, "impl": impl, "model": model})
            return False
        return True

    def oracle_ok(self, site: str):
        self.oracle_counts[site] += 1

    def oracle_fail(self, site: str, case, what: str, fingerprint: str | None = None):
        """the real code contradicts the property's oracle on `case`"""
        self.oracle_counts[site] += 1
        self.oracle_fails.append({"site": site, "case": case, "what": what, "fingerprint": fingerprint or site})

    def match_known(self, f: dict):
        for k in self.known:
            m = k.get("matcher", {})
            if m.get("site") and m["site"] != f["site"]:
                continue
            pat = m.get("fingerprint")
            if pat and not re.search(pat, f["fingerprint"]):
                continue
            return k
        return None

    # ------------------------------------------------------------ verdict
    def finish(self, level="proof", extra_cov: dict | None = None):
        if self._drv:
            self._drv.close()
        wall = time.monotonic() - self.t0
        new_fails = []
        for f in self.oracle_fails:
            k = self.match_known(f)
            if k is not None:
                self.known_hit.setdefault(k["id"], k)
                k.setdefault("_n", 0)
                k["_n"] += 1
            else:
                new_fails.append(f)
        for kid, k in sorted(self.known_hit.items()):
            print(f"KNOWN-FINDING: property={self.prop} {kid}: {k['description']} ({k['_n']} cases this run)")
        for k in self.known:
            if k["id"] not in self.known_hit:
                self.notes.append(f"known finding {k['id']} was not re-derived by this run")
        violation = None
        broken = bool(self.proof_broken or self.corr_broken)
        if new_fails:
            violation = {"kind": "failing-input", "failures": new_fails[:20], "n_failures": len(new_fails),
                         "broken_theorems": self.proof_broken, "broken_correspondence": {k: v[:5] for k, v in self.corr_broken.items()}}
        elif broken:
            violation = {"kind": "no-failing-input-found", "broken_theorems": self.proof_broken,
                         "broken_correspondence": {k: v[:10] for k, v in self.corr_broken.items()},
                         "note": "the proof obligation / correspondence named here no longer checks against the current source; the search for a concrete failing input found none"}
        cov = {
            "obligations": len(self.obligations),
            "discharged": len(self.discharged),
            "checker_cmd": self.checker_cmd or "n/a",
            "trusted_base": self.trusted,
            "obligation_names": self.obligations,
            "axioms": getattr(self, "axioms", {}),
            "evaluations": self.evaluations,
            "distinct_nontrivial": len(self.distinct),
            "rule": getattr(self, "rule", "see check module"),
            "samples": self.samples or ["(none)"],
            "traces_validated_against_impl": sum(self.corr_counts.values()),
            "correspondence_streams": dict(self.corr_counts),
            "correspondence_mismatches": {k: len(v) for k, v in self.corr_broken.items()},
            "oracle_sites": dict(self.oracle_counts),
            "oracle_failures_total": len(self.oracle_fails),
            "known_findings_rederived": sorted(self.known_hit),
            "distribution": {k: dict(v.most_common(40)) for k, v in self.dist.items()},
            "notes": self.notes,
        }
        if extra_cov:
            cov.update(extra_cov)
        ev = {
            "property_id": self.prop, "tier": self.tier, "seed": self.seed, "level": level,
            "coverage": cov, "assumptions": self.assumptions, "wall_s": round(wall, 2),
            "violations": 0 if violation is None else max(1, len(new_fails)),
        }
        (VERIF / "evidence").mkdir(exist_ok=True)
        (VERIF / "evidence" / f"{self.prop}.json").write_text(json.dumps(ev, indent=1, default=str))
        if violation is None:
            print(f"OK property={self.prop} tier={self.tier} seed={self.seed} obligations={len(self.discharged)}/{len(self.obligations)} "
                  f"corr={sum(self.corr_counts.values())} oracle={sum(self.oracle_counts.values())} wall={wall:.1f}s")
            sys.exit(0)
        d = VERIF / "replays" / self.prop
        d.mkdir(parents=True, exist_ok=True)
        rp = d / f"{self.tier}_{self.seed}.json"
        rp.write_text(json.dumps({"property": self.prop, "seed": self.seed, "tier": self.tier, **violation}, indent=1, default=str))
        tail = " no-failing-input-found" if violation["kind"] == "no-failing-input-found" else ""
        for f in new_fails[:5]:
            print(f"  failing input [{f['site']}]: {json.dumps(f['case'], default=str)[:300]} -> {f['what'][:300]}")
        for t in self.proof_broken[:10]:
            print(f"  broken obligation: {t}")
        for s, v in self.corr_broken.items():
            print(f"  broken correspondence [{s}] {len(v)} cases, first: {json.dumps(v[0], default=str)[:400]}")
        print(f"VIOLATION property={self.prop} replay={rp}{tail}")
        sys.exit(1)


def main_guard(fn):
    """run a check's main(); infrastructure errors -> exit 2"""
    try:
        fn()
    except SystemExit:
        raise
    except Infra as e:
        print(f"INFRA: {e}", file=sys.stderr)
        sys.exit(2)
    except Exception:
        import traceback
        traceback.print_exc()
        print("INFRA: unexpected harness exception", file=sys.stderr)
        sys.exit(2)
