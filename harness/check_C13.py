"""C13 — swapping parameters into a module is exact, isolated and always undone (DESIGN §6 C13)."""
from __future__ import annotations

import copy

from common import Infra, Run, err_class, main_guard, parse_sx, time_limit

import c13_graph as G


def err_word(e):
    return {"key": "key", "type": "type", "value": "value", "index": "index"}.get(err_class(e), "attr" if isinstance(e, AttributeError) else "other")


def ask(drv, reqs, budget=24000):
    """the driver pipe is synchronous: keep each batch (requests + answers) well below the OS pipe buffer"""
    out, chunk, size = [], [], 0
    for r in reqs:
        if chunk and size + 3 * len(r) > budget:
            out += drv.ask_many(chunk)
            chunk, size = [], 0
        chunk.append(r)
        size += 3 * len(r)
    if chunk:
        out += drv.ask_many(chunk)
    return out


def main():
    run = Run("C13")
    run.rule = ("random module graphs (1-5 generic modules; None params/buffers, non-persistent buffers, plain tensor attributes, "
                "tied tensors, shared and doubly-registered submodules) x parameter trees (subsets, same object, cross-kind, tied, shuffled, "
                "malformed) x with-block programs (nesting <=3, raise direct / in a forward hook / in a pre-hook / after forward, try/except, parameter tensordict alive or collected at exit) "
                "+ inplace=True value runs + TensorDictParams op sequences + real-layer zoo; "
                "a case is non-trivial if its (graph, tree/program) text is new and it has at least one tensor cell")
    run.trusted += [
        "Model/C13Module.lean is a hand transcription of _set_tensor_dict, _to_module (native __setattr__, return_swap=True, "
        "use_state_dict=False, inplace=False), _quick_set, _from_module, __enter__/__exit__, _reverse_to_module; validated on every run "
        "against the library on random graphs (ordered dict contents, swap trees, error kinds and the partial state at the raise)",
        "torch.nn.Module registration (register_parameter/register_buffer/add_module/__setattr__) and torch.func.functional_call are torch",
    ]
    run.assumptions += [
        "module graphs are acyclic (TensorDict._from_module itself does not terminate otherwise); the model answers `cycle` when a module is re-entered",
        "bodies of with-blocks do not re-register module attributes (forward passes and in-place value updates only)",
        "parameter-registration hooks (torch global) are empty; keys of a parameter tensordict that name a non-tensor attribute of the module are outside the model",
        "inplace=True: identities and values are modelled (Model/C13Inplace.lean: same traversal, registry untouched, clone/copy_ on values); "
        "use_state_dict=True, custom __setattr__ (torch swap_tensor path), lazy parameters, TensorDictModule wrappers, a TensorDictParams inside the module tree, vmap-batched parameters: "
        "oracle only (identity / value snapshot before == after, output == functional_call), not in the Lean model",
        "TensorDictParams: the registry (_reset_params) and the reset discipline of _unlock_and_set / update are modelled; what each operation does to the wrapped tensordict is an arbitrary function on the leaves in the model "
        "(exercised by the oracle after every op; the discipline itself is re-read from the source with ast on every run)",
    ]
    run.build_and_audit(["TdVerif.Props.C13"])
    import c13_shapes
    c13_shapes.check(run, "C13")   # the hand-transcribed functions still have the shape that was transcribed
    if run.tier == "thorough":
        run.leanchecker(["TdVerif.Props.C13", "TdVerif.Lemmas.C13", "TdVerif.Lemmas.C13Params", "TdVerif.Lemmas.C13Inplace", "TdVerif.Model.C13Module", "TdVerif.Model.C13Params", "TdVerif.Model.C13Inplace"])
    drv = run.driver()

    import torch
    from tensordict import TensorDict

    quick = run.tier == "quick"
    rng = run.rng
    x = torch.zeros(1, dtype=torch.float64)

    # ------------------------------------------------------------------ stream 1+2: from_module, to_module (+ the swap back)
    import json
    from common import VERIF
    corpus = [json.loads(pth.read_text()) for pth in sorted((VERIF / "corpus" / "C13").glob("*.json"))]
    run.count("corpus.cases", len(corpus))
    n_swap = 1200 if quick else 8000
    reqs, ctx = [], []
    for c in corpus:
        if c["stream"] != "to_module":
            continue
        graph = G.graph_from_sx(c["graph"])
        tree = G.tree_from_sx(c["tree"], graph["kinds"])
        world = G.World(graph["kinds"])
        gsx, tsx, root = G.graph_sx(graph, world), G.tree_sx(tree, world), c.get("root", 0)
        reqs += [f"(c13.from_module {gsx} {root})", f"(c13.roundtrip {gsx} {root} {tsx})"]
        ctx.append((graph, world, root, tree, True, gsx, tsx))
    for it in range(n_swap):
        graph = G.gen_graph(rng)
        world = G.World(graph["kinds"])
        root = 0 if rng.random() < 0.8 else rng.randrange(0, len(graph["mods"]))
        malformed = rng.random() < 0.25
        if malformed:
            # keys that name a None entry / nothing at all are modelled for the native branch only (on a module with a custom
            # __setattr__ torch's swap_tensor accepts a None slot and hands None back: outside the model)
            for md in graph["mods"]:
                md["custom"] = False
        tree = G.gen_tree(rng, graph, world, root, malformed=malformed)
        gsx = G.graph_sx(graph, world)
        tsx = G.tree_sx(tree, world)
        reqs += [f"(c13.from_module {gsx} {root})", f"(c13.roundtrip {gsx} {root} {tsx})"]
        ctx.append((graph, world, root, tree, malformed, gsx, tsx))
    # use_state_dict=True: the same graphs through the state-dict API (valid trees, possibly with empty nested entries)
    sd_reqs, sd_ctx = [], []
    for it in range(n_swap // 4):
        graph = G.gen_graph(rng)
        world = G.World(graph["kinds"])
        tree = G.gen_tree(rng, graph, world, 0)
        gsx, tsx = G.graph_sx(graph, world), G.tree_sx(tree, world)
        sd_reqs += [f"(c13.from_module_sd {gsx} 0)", f"(c13.roundtrip_sd {gsx} 0 {tsx})"]
        sd_ctx.append((graph, world, tree, gsx, tsx))
    sd_answers = ask(drv, sd_reqs)
    for i, (graph, world, tree, gsx, tsx) in enumerate(sd_ctx):
        m_from, m_rt = parse_sx(sd_answers[2 * i]), parse_sx(sd_answers[2 * i + 1])
        run.case(("state_dict", gsx, tsx))
        mods = G.build(graph, world)
        before = G.id_snapshot(mods)
        with time_limit(60):
            fm = TensorDict.from_module(mods[0], use_state_dict=True)
        impl_from = ["ok", G.td_tree(fm, world, detached=True)] if len(list(fm.keys())) else ["ok", "none"]
        run.corr("from_module_state_dict", [gsx], impl_from, m_from)
        sd = mods[0].state_dict()
        flat = {".".join(k) if isinstance(k, tuple) else k: v for k, v in fm.items(True, True)}
        if set(flat) != set(sd) or any(flat[k].data_ptr() != sd[k].data_ptr() for k in sd):
            run.oracle_fail("from_module", [gsx, "use_state_dict"], f"from_module(use_state_dict=True) differs from state_dict(): {sorted(set(flat) ^ set(sd))}", "from_module:state_dict")
        else:
            run.oracle_ok("from_module_state_dict")
        td = G.make_td(tree, world)
        try:
            with time_limit(60):
                s = td.to_module(mods[0], use_state_dict=True)
                s_tree = G.td_tree(s, world)
                s.to_module(mods[0], use_state_dict=True, swap_dest=td)
            impl = ["ok", G.snapshot(mods, world), s_tree]
        except TimeoutError:
            raise
        except KeyError:
            impl = ["ok", G.snapshot(mods, world), s_tree]     # _quick_set into td failed after the module loop
        except Exception as e:  # noqa: BLE001
            impl = ["err", err_word(e), G.snapshot(mods, world)]
        run.count("state_dict.outcome", impl[0])
        run.corr("to_module_state_dict", [gsx, tsx], impl, m_rt)
        d = G.diff_snap(before, G.id_snapshot(mods))
        if impl[0] == "ok" and d:
            run.oracle_fail("swap_back", [gsx, 0, tsx, "use_state_dict"], "module not restored through the state-dict API: " + ",".join(d[:6]), "swap_back:state_dict")
        elif impl[0] == "ok":
            run.oracle_ok("swap_back_state_dict")
    answers = ask(drv, reqs)
    for i, (graph, world, root, tree, malformed, gsx, tsx) in enumerate(ctx):
        m_from, m_rt = parse_sx(answers[2 * i]), parse_sx(answers[2 * i + 1])
        ncells = sum(len(md["params"]) + len(md["buffers"]) + len(md["plain"]) for md in graph["mods"])
        run.case(("swap", gsx, root, tsx), nontrivial=ncells > 0)
        run.count("graph.mods", len(graph["mods"]))
        run.count("graph.shared", sum(1 for j in range(1, len(graph["mods"])) if sum(k == j for md in graph["mods"] for _, k in md["kids"]) > 1) > 0)
        run.count("tree.kind", "malformed" if malformed else "valid")
        mods = G.build(graph, world)
        before = G.id_snapshot(mods)
        order_before = G.order_snapshot(mods)
        # from_module
        with time_limit(60):
            fm = TensorDict.from_module(mods[root])
        impl_from = ["ok", G.td_tree(fm, world)] if len(list(fm.keys())) else ["ok", "none"]
        run.corr("from_module", [gsx, root], impl_from, m_from)
        # the property on from_module: exactly the qualified names, tied stay tied
        flat = {".".join(k) if isinstance(k, tuple) else k: v for k, v in fm.items(True, True)}
        named = dict(mods[root].named_parameters(remove_duplicate=False))
        named.update(dict(mods[root].named_buffers(remove_duplicate=False)))
        if set(flat) != set(named) or any(flat[k] is not named[k] for k in flat):
            run.oracle_fail("from_module", [gsx, root], f"from_module keys/objects differ from named_parameters+named_buffers: {sorted(set(flat) ^ set(named))}", "from_module")
        else:
            run.oracle_ok("from_module")
        # to_module, then the swap back into the module with swap_dest = params
        td = G.make_td(tree, world)
        if G.td_tree(td, world) != parse_sx(tsx):
            raise Infra("harness: TensorDict construction did not preserve the generated tree")
        try:
            with time_limit(60):
                s = td.to_module(mods[root])
            stage1 = None
        except Exception as e:  # noqa: BLE001
            stage1 = e
        if stage1 is not None:
            impl = ["err", err_word(stage1), G.snapshot(mods, world)]
            run.count("swap.outcome", "err-" + err_word(stage1))
            run.corr("to_module", [gsx, root, tsx], impl, m_rt)
            continue
        s_tree = G.td_tree(s, world)
        try:
            with time_limit(60):
                back = s.to_module(mods[root], swap_dest=td)
            impl = ["ok", G.snapshot(mods, world), s_tree, G.td_tree(td, world)]
            run.count("swap.outcome", "ok")
        except Exception as e:  # noqa: BLE001
            impl = ["err2", err_word(e), G.snapshot(mods, world)]
            run.count("swap.outcome", "err2")
        run.corr("to_module", [gsx, root, tsx], impl, m_rt)
        if i < 3:
            run.sample({"stream": "to_module", "graph": gsx, "root": root, "params": tsx, "model": answers[2 * i + 1][:600]})
        # property oracle: two explicit swaps restore the module
        d = G.diff_snap(before, G.id_snapshot(mods))
        if d:
            run.oracle_fail("swap_back", [gsx, root, tsx], "module not restored by swapping the swap back: " + ",".join(d[:6]), "swap_back:" + d[0].split(":")[0])
        else:
            run.oracle_ok("swap_back")
            # ... and in the same order (unless a plain tensor was aimed at a parameter slot)
            if impl[0] == "ok" and G.keeps_param_slots(graph, world, tree, root):
                if G.order_snapshot(mods) != order_before:
                    run.oracle_fail("swap_back_order", [gsx, root, tsx], "the registries are restored but in another order: "
                                    f"{order_before} -> {G.order_snapshot(mods)}", "swap_back:order")
                else:
                    run.oracle_ok("swap_back_order")

    # ------------------------------------------------------------------ stream 3: with-block programs
    n_prog = 1200 if quick else 8000
    reqs, ctx = [], []
    for c in corpus:
        if c["stream"] != "with_blocks":
            continue
        graph = G.graph_from_sx(c["graph"])
        prog = G.prog_from_sx(c["prog"], graph["kinds"])
        world = G.World(graph["kinds"])
        gsx, psx = G.graph_sx(graph, world), G.prog_sx(prog, world)
        reqs.append(f"(c13.exec {gsx} {psx})")
        ctx.append((graph, world, prog, gsx, psx))
    for it in range(n_prog):
        graph = G.gen_graph(rng)
        world = G.World(graph["kinds"])
        prog = G.gen_prog(rng, graph, world)
        gsx = G.graph_sx(graph, world)
        psx = G.prog_sx(prog, world)
        reqs.append(f"(c13.exec {gsx} {psx})")
        ctx.append((graph, world, prog, gsx, psx))
    answers = ask(drv, reqs)
    for i, (graph, world, prog, gsx, psx) in enumerate(ctx):
        model = parse_sx(answers[i])
        nblocks = G.count_blocks(prog)
        run.case(("prog", gsx, psx), nontrivial=nblocks > 0)
        run.count("prog.blocks", min(nblocks, 6))
        mods = G.build(graph, world)
        before = G.id_snapshot(mods)
        tds = [G.make_td(t, world) for t in G.prog_trees(prog)]
        swaps = []
        status = "normal"
        masked = None
        try:
            with time_limit(60):
                G.run_prog(prog, mods, tds, swaps, x)
        except TimeoutError:
            raise
        except Exception as e:  # noqa: BLE001  (Boom from the body, or KeyError from _quick_set in __exit__)
            status = "raised"
            masked = e
            run.count("prog.exception", type(e).__name__)
        except BaseException as e:  # noqa: BLE001
            if not getattr(e, "_c13", False):
                raise
            status = "raised-base"
            run.count("prog.exception", type(e).__name__)
        run.count("prog.status", status)
        impl = [status, G.snapshot(mods, world), [len(getattr(s, "_last_op_queue", ())) for s in swaps]]
        run.corr("with_blocks", [gsx, psx], impl, model)
        if i < 3:
            run.sample({"stream": "with_blocks", "graph": gsx, "program": psx, "model": answers[i][:600]})
        d = G.diff_snap(before, G.id_snapshot(mods))
        stale = [j for j, s in enumerate(swaps) if len(getattr(s, "_last_op_queue", ()))]
        if masked is not None and isinstance(masked, RuntimeError) and "boolean" in str(masked):
            run.oracle_fail("with_blocks", [gsx, psx], "a BaseException raised in the body was replaced on its way out of the with-block by "
                            f"RuntimeError({str(masked)[:60]}…): __exit__ returned a tensordict, which Python asks for its truth value",
                            "with_blocks:base-exception-masked")
        elif d:
            run.oracle_fail("with_blocks", [gsx, psx], f"module differs after the program ({status}): " + ",".join(d[:6]),
                            f"with_blocks:{status}:{d[0].split(':')[0]}")
        elif stale:
            run.oracle_fail("with_blocks", [gsx, psx], f"stale _last_op_queue records on swap tensordicts {stale}", "with_blocks:queue")
        else:
            run.oracle_ok("with_blocks")

    # ------------------------------------------------------------------ harness self-test: a known mutation must be seen
    # (DESIGN §5.3: a bug in the harness could hide a difference) — the pinned early return of __exit__ is monkey-patched in
    # for a few raising programs; the identity oracle must notice, otherwise the run is an infrastructure failure.
    import unittest.mock as mock
    from tensordict.base import TensorDictBase
    real_exit = TensorDictBase.__exit__

    def old_exit(self, exc_type, exc_val, exc_tb):
        if exc_type is not None and issubclass(exc_type, Exception):
            return False
        return real_exit(self, exc_type, exc_val, exc_tb)
    seen = 0
    with mock.patch.object(TensorDictBase, "__exit__", old_exit):
        for c in corpus:
            if c["stream"] != "with_blocks" or "raise" not in c["prog"]:
                continue
            graph = G.graph_from_sx(c["graph"])
            prog = G.prog_from_sx(c["prog"], graph["kinds"])
            world = G.World(graph["kinds"])
            mods = G.build(graph, world)
            before = G.id_snapshot(mods)
            tds = [G.make_td(t, world) for t in G.prog_trees(prog)]
            try:
                G.run_prog(prog, mods, tds, [], x)
            except Exception:  # noqa: BLE001
                pass
            seen += bool(G.diff_snap(before, G.id_snapshot(mods)))
    run.count("selftest.pinned_exit_detected", seen)
    if not seen:
        raise Infra("harness self-test: the pinned __exit__ (early return on exception) was not noticed by the identity oracle")

    # ------------------------------------------------------------------ stream 4: output inside the block == functional_call
    n_fun = 300 if quick else 3000
    for it in range(n_fun + 1):
        if it == 0:
            # the witness of the recorded finding, so that it is re-derived on every run: a submodule registered under two
            # names and given two different sub-tensordicts
            graph = G.graph_from_sx("(mods (mod (params) (buffers) (plain) (kids (a 1) (b 1))) (mod (params (w 1 p) (v 2 p)) (buffers) (plain) (kids)))")
            tree = G.tree_from_sx("(td (a (node (w (leaf 10 t)))) (b (node (w (leaf 10 t)) (v (leaf 11 t)))))", graph["kinds"])
            world = G.World(graph["kinds"])
        else:
            graph = G.gen_graph(rng)
            world = G.World(graph["kinds"])
            tree = G.gen_tree(rng, graph, world, 0, per_cell={}, per_mod={})
        mods = G.build(graph, world)
        td = G.make_td(tree, world)
        flat = {".".join(k) if isinstance(k, tuple) else k: v for k, v in td.items(True, True)}
        gsx, tsx = G.graph_sx(graph, world), G.tree_sx(tree, world)
        run.case(("fun", gsx, tsx), nontrivial=len(flat) > 0)
        try:
            with time_limit(60):
                ref = torch.func.functional_call(mods[0], flat, (x,), strict=False, tie_weights=False)
        except Exception:  # noqa: BLE001  (torch refuses this combination: no reference)
            run.count("functional.ref", "refused")
            continue
        out = None
        try:
            with time_limit(60):
                with td.to_module(mods[0]):
                    out = mods[0](x)
            run.count("functional.ref", "ok")
        except TimeoutError:
            raise
        except KeyError:
            # _quick_set into the parameter tensordict failed in __exit__ (a submodule reached through two keys
            # whose sub-tensordicts have different keys); the output was computed before
            run.count("functional.ref", "exit-raised-KeyError")
        if out is None:
            run.oracle_fail("functional", [gsx, tsx], "to_module raised on a well-formed parameter tensordict", "functional:entry")
            continue
        if not torch.equal(out, ref):
            differ = G.shared_subtrees_differ(graph, 0, tree)
            run.oracle_fail("functional", [gsx, tsx], f"output inside the block {out.tolist()} != functional_call {ref.tolist()}",
                            "functional:shared-subtrees-differ" if differ else "functional:output")
        else:
            run.oracle_ok("functional")

    # ------------------------------------------------------------------ stream 5: inplace=True — values
    n_inp = 300 if quick else 3000
    reqs, ctx = [], []
    for it in range(n_inp):
        graph = G.gen_graph(rng)
        world = G.World(graph["kinds"])
        tree = G.gen_tree(rng, graph, world, 0)
        gsx, tsx = G.graph_sx(graph, world), G.tree_sx(tree, world)
        reqs.append(f"(c13.inplace {gsx} 0 {tsx})")
        ctx.append((graph, world, tree, gsx, tsx))
    answers = ask(drv, reqs)
    for (graph, world, tree, gsx, tsx), ans in zip(ctx, answers):
        model = parse_sx(ans)
        run.case(("inplace", gsx, tsx))
        mods = G.build(graph, world)
        before = G.id_snapshot(mods)
        mod_tids = sorted({t for md in graph["mods"] for _, t, *_ in md["params"] + md["buffers"] + md["plain"] if t is not None})
        td = G.make_td(tree, world)

        def values():
            return [[t, int(world.objs[t].item())] for t in mod_tids]
        try:
            with time_limit(60), torch.no_grad():
                s = td.to_module(mods[0], inplace=True)
                v1 = values()
                try:
                    s.to_module(mods[0], inplace=True, swap_dest=td)
                except KeyError:
                    # _quick_set into `td` failed after the module loop (shared submodule, different sub-tensordicts)
                    run.count("inplace.exit", "quick_set-KeyError")
                v2 = values()
            impl = ["ok", v1, v2]
        except TimeoutError:
            raise
        except Exception as e:  # noqa: BLE001
            impl = ["err", err_word(e)]
        want_order = {t: i for i, (t, _) in enumerate(model[1])} if model[0] == "ok" else {}
        if impl[0] == "ok" and model[0] == "ok":
            model = ["ok", sorted(model[1]), sorted(model[2])]
        run.count("inplace.outcome", impl[0])
        run.corr("inplace_values", [gsx, tsx], impl, model)
        if impl[0] == "ok":
            d = G.diff_snap(before, G.id_snapshot(mods))
            changed = [t for t, v in impl[2] if v != t]
            cells = [t for md in graph["mods"] for _, t, *_ in md["params"] + md["buffers"] + md["plain"] if t is not None]
            tied = all(cells.count(t) > 1 for t in changed)
            if d:
                run.oracle_fail("inplace_graph", [gsx, tsx], "inplace=True changed the registry: " + ",".join(d[:4]), "inplace_graph:registry")
            elif changed:
                run.oracle_fail("zoo_restore" if tied else "inplace_graph", [gsx, tsx], f"inplace=True: values of tensors {changed} not restored by the swap back",
                                "zoo:inplace=True:values:tied-tensor" if tied else "inplace_graph:values:untied")
            else:
                run.oracle_ok("inplace_graph")

    # ------------------------------------------------------------------ extended domain (oracle only)
    import c13_zoo
    c13_zoo.run_zoo(run)
    import c13_params
    c13_params.run_params(run, drv)
    import c13_lazy
    c13_lazy.run_lazy(run, drv, ask, rng)
    import c13_install
    c13_install.run_install(run, drv, ask, rng, err_word)
    import c13_sdhook
    c13_sdhook.run_sdhook(run, drv, ask, rng)
    run.finish("proof")


if __name__ == "__main__":
    main_guard(main)
