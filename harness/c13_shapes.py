"""Source-shape obligations for C13/C14: the functions the Lean models transcribe by hand are fingerprinted
(sha1 of the ast dump, docstrings and comments ignored). An edit of a transcribed function is then noticed even when no sampled
input behaves differently: the check records a broken obligation `source-shape:<function>` (not by itself a violation: the
oracle streams then look for a failing input) until the model is re-transcribed and the fingerprint file is refreshed with

    VERIF_REPO=<tree> python harness/c13_shapes.py --update C13   (or C14)
"""
from __future__ import annotations

import ast
import hashlib
import json
import sys
from pathlib import Path

HERE = Path(__file__).resolve().parent
STORE = HERE / "c13_c14_shapes.json"

# property -> [(file, qualified name inside the file, what transcribes it)]
TRANSCRIBED = {
    "C13": [
        ("tensordict/_td.py", "_set_tensor_dict", "C13Module.setTensorNative (incl. the lazy-parameter pre-hook) / C13Inplace.inplaceWrite"),
        ("tensordict/_td.py", "TensorDict._to_module", "C13Module.swapEntriesWith / setTensorCustom / C13Inplace.visit"),
        ("tensordict/_td.py", "TensorDict._from_module", "C13Module.fromModule / fromKids"),
        ("tensordict/_td.py", "TensorDict.from_module", "C13Module.fromModule"),
        ("tensordict/base.py", "TensorDictBase.to_module", "C13Module.toModule"),
        ("tensordict/base.py", "TensorDictBase.__enter__", "C13Module.enterBlock"),
        ("tensordict/base.py", "TensorDictBase.__exit__", "C13Module.exitBlock"),
        ("tensordict/_contextlib.py", "_reverse_to_module", "C13Module.exitBlock"),
        ("tensordict/utils.py", "_as_context_manager", "C13Module.toModule (lastOp)"),
        ("tensordict/nn/params.py", "TensorDictParams._reset_params", "C13Params.resetParams"),
        ("tensordict/nn/params.py", "_unlock_and_set.__call__", "C13Params.step (mutate)"),
        ("tensordict/nn/params.py", "TensorDictParams.update", "C13Params.step (mutate)"),
    ],
    "C14": [
        ("tensordict/nn/common.py", "TensorDictModule.forward", "C14Seq.runMod / fwdMod"),
        ("tensordict/nn/common.py", "TensorDictModule._write_to_tensordict", "C14Seq.writeOuts / fwdMod"),
        ("tensordict/nn/common.py", "_OutKeysSelect.__call__", "C14Seq.hook / fwdMod"),
        ("tensordict/nn/common.py", "_OutKeysSelect._detect_dispatch", "C14Seq.fwdMod (skip branch)"),
        ("tensordict/nn/common.py", "TensorDictModuleBase.select_out_keys", "C14Seq.ModX.sel"),
        ("tensordict/nn/sequence.py", "TensorDictSequential._compute_in_and_out_keys", "C14Seq.inOutAux / nodesInOut"),
        ("tensordict/nn/sequence.py", "TensorDictSequential.select_subsequence", "C14Seq.selIn / selOut / selectNode"),
        ("tensordict/nn/sequence.py", "TensorDictSequential._run_module", "C14Seq.fwdKids (partial_tolerant)"),
        ("tensordict/nn/sequence.py", "TensorDictSequential.forward", "C14Seq.fwdNode / fwdSeqOut"),
        ("tensordict/nn/sequence.py", "TensorDictSequential.select_out_keys", "C14Seq.Node.seq sel"),
        ("tensordict/nn/sequence.py", "TensorDictSequential.__getitem__", "C14Seq.inKeys / outKeys of the sub-list (stream keys_of_slice)"),
        ("tensordict/nn/sequence.py", "TensorDictSequential.__setitem__", "C14Seq.inKeys / outKeys of the current list (stream keys_after_mutation)"),
        ("tensordict/nn/sequence.py", "TensorDictSequential.__delitem__", "C14Seq.inKeys / outKeys of the current list (stream keys_after_mutation)"),
        ("tensordict/nn/sequence.py", "TensorDictSequential._recompute_keys", "C14Seq.inKeys / outKeys of the current list"),
        ("tensordict/nn/sequence.py", "TensorDictSequential.insert", "C14Seq.inKeys / outKeys of the current list (stream keys_after_mutation)"),
        ("tensordict/nn/sequence.py", "TensorDictSequential.append", "C14Seq.inKeys / outKeys of the current list (stream keys_after_mutation)"),
        ("tensordict/nn/sequence.py", "TensorDictSequential.extend", "C14Seq.inKeys / outKeys of the current list (stream keys_after_mutation)"),
        ("tensordict/nn/sequence.py", "TensorDictSequential._from_selected_modules", "C14Seq.selectNode (the result is a default-option sequence of the kept modules)"),
        ("tensordict/nn/utils.py", "_set_skip_existing_None.__call__", "C14Seq.skips"),
        ("tensordict/nn/probabilistic.py", "ProbabilisticTensorDictModule._dist_sample", "C14Prob.distSample"),
        ("tensordict/nn/probabilistic.py", "ProbabilisticTensorDictModule.forward", "C14Prob.moduleLogProbShape"),
        ("tensordict/nn/probabilistic.py", "ProbabilisticTensorDictSequential.forward", "C14Auto.forward"),
        ("tensordict/nn/probabilistic.py", "ProbabilisticTensorDictSequential.log_prob", "C14Auto.logProbCond"),
        ("tensordict/nn/probabilistic.py", "ProbabilisticTensorDictSequential.get_dist", "C14Auto.logProbFresh"),
        ("tensordict/nn/probabilistic.py", "ProbabilisticTensorDictSequential._get_dist_composite", "C14Auto.logProbCond / logProbFresh"),
        ("tensordict/nn/probabilistic.py", "ProbabilisticTensorDictSequential._from_selected_modules", "C14Seq.selectNode (class of the result)"),
        ("tensordict/nn/distributions/composite.py", "CompositeDistribution.log_prob", "C14Prob.compositeLogProbShape"),
        ("tensordict/nn/distributions/composite.py", "CompositeDistribution.log_prob_composite", "C14Prob.perHeadShapes"),
        ("tensordict/base.py", "TensorDictBase.update", "C14Seq.updKeys / updAliases"),
    ],
}


def _strip_doc(node):
    for n in ast.walk(node):
        if isinstance(n, (ast.FunctionDef, ast.ClassDef, ast.AsyncFunctionDef)) and n.body and isinstance(n.body[0], ast.Expr) \
                and isinstance(getattr(n.body[0], "value", None), ast.Constant) and isinstance(n.body[0].value.value, str):
            n.body = n.body[1:] or [ast.Pass()]
    return node


def find(tree, qual):
    """all definitions with that qualified name (implement_for variants are all taken)"""
    parts = qual.split(".")
    nodes = [tree]
    for i, p in enumerate(parts):
        nxt = []
        for nd in nodes:
            for ch in getattr(nd, "body", []):
                if isinstance(ch, (ast.FunctionDef, ast.ClassDef)) and ch.name == p:
                    nxt.append(ch)
        nodes = nxt
    return nodes


def fingerprints(repo: Path, prop: str):
    out = {}
    cache = {}
    for file, qual, _ in TRANSCRIBED[prop]:
        if file not in cache:
            cache[file] = ast.parse((repo / file).read_text())
        nodes = find(cache[file], qual)
        if not nodes:
            out[f"{file}:{qual}"] = "missing"
            continue
        h = hashlib.sha1()
        for nd in nodes:
            h.update(ast.dump(_strip_doc(nd), include_attributes=False).encode())
        out[f"{file}:{qual}"] = h.hexdigest()[:16]
    return out


def check(run, prop: str):
    from common import REPO
    store = json.loads(STORE.read_text()) if STORE.exists() else {}
    want = store.get(prop, {})
    got = fingerprints(REPO, prop)
    changed = sorted(k for k in got if want.get(k) != got[k])
    run.count("source_shape.functions", len(got))
    for k in changed:
        run.proof_broken.append(f"source-shape:{k} (transcribed by {dict((f'{f}:{q}', t) for f, q, t in TRANSCRIBED[prop])[k]}) changed: re-transcribe, then refresh harness/c13_c14_shapes.json")
    return not changed


if __name__ == "__main__":
    import os
    repo = Path(os.environ.get("VERIF_REPO", "/repo"))
    if len(sys.argv) >= 3 and sys.argv[1] == "--update":
        store = json.loads(STORE.read_text()) if STORE.exists() else {}
        for prop in sys.argv[2:]:
            store[prop] = fingerprints(repo, prop)
        STORE.write_text(json.dumps(store, indent=1, sort_keys=True))
        print("updated", sys.argv[2:])
    else:
        for prop in TRANSCRIBED:
            print(prop, json.dumps(fingerprints(repo, prop), indent=1))
