"""C20 — apply / named_apply honour their contract for every option combination (DESIGN §6 C20)."""
from __future__ import annotations

import itertools
import warnings

import torch

import c20_lib as L
from common import Infra, Run, err_class, main_guard, parse_sx, time_limit

warnings.filterwarnings("ignore")

FRONTS = [("apply", False, False, 0, False), ("named_apply", True, False, 0, False), ("named_apply", True, True, 0, False)]
for named, nk in ((False, False), (True, False), (True, True)):
    for nt in (0, 2, 4):
        for nal in (False, True):
            FRONTS.append(("fast", named, nk, nt, nal))
TARGETS = ["new", "inplace", "out_empty", "out_filled", "out_locked"]
LATTICE = {
    "front": FRONTS, "target": TARGETS, "default": [False, True], "filter_empty": [None, True, False],
    "call_on_nested": [False, True], "batch_size": ["none", "prefix"], "names": ["nodef", "none", "list"],
    "device": ["nodef", "none", "cpu"], "propagate_lock": [False, True],
}


def lattice_points():
    keys = list(LATTICE)
    for combo in itertools.product(*[LATTICE[k] for k in keys]):
        yield dict(zip(keys, combo))


def sample_point(rng):
    return {k: rng.choice(v) for k, v in LATTICE.items()}


def run_point(run, drv, rng, pt, stream="lattice", container="plain", other_container=None):
    from tensordict import TensorDict
    front, named, nested_keys, nthreads, node_as_leaf = pt["front"]
    ids = itertools.count(1)
    batch = rng.choice([(2,), (2, 3)])
    s = L.gen_struct(rng, 0, ids, allow_empty=False)
    self_names = rng.choice([None, ["p", "q"][:len(batch)]])
    self_dev = rng.choice([None, None, "cpu"])
    self_td = L.build(s, batch, names=self_names, device=self_dev)
    nothers = rng.choice([0, 1, 1, 2])
    omodes, ostructs, others = [], [], []
    for j in range(nothers):
        mode = rng.choice(["perm", "perm", "missing", "extra", "both"])
        o = L.derive_other(rng, s, itertools.count(1000 * (j + 1)), mode)
        omodes.append(mode); ostructs.append(o)
        others.append(L.build(o, batch, device=self_dev))
    if pt["target"] == "inplace" and (pt["call_on_nested"] or node_as_leaf) and any(isinstance(v, dict) for v in s.values()):
        # the recording function returns a tensor for a tensordict item: not a legal in-place update (the function's contract, not apply's)
        run.count(f"{stream}.inadmissible", "inplace x function called on nested tensordicts")
        return None
    self_locked = rng.random() < 0.35
    if container == "params":
        self_locked = False    # the lock of a TensorDictParams wrapper is C13's subject: `TensorDictParams(td, lock=True).is_locked` is not the content's
    if self_locked:
        self_td.lock_()
    all_ids = L.flat_ids(s)
    drop = [i for i in all_ids if rng.random() < 0.3]
    # target
    out_td, out_struct = None, None
    if pt["target"].startswith("out"):
        if pt["target"] == "out_empty":
            out_struct = {}
        else:
            out_struct = L.derive_other(rng, s, itertools.count(5000), rng.choice(["perm", "missing", "extra"]))
        bs_out = batch if pt["batch_size"] == "none" else batch[:1]
        out_td = L.build(out_struct, bs_out, device=self_dev)
        if pt["target"] == "out_locked":
            out_td.lock_()
    new_bs = None if pt["batch_size"] == "none" else list(batch[:1])
    res_nd = len(batch) if new_bs is None else len(new_bs)
    names_kw = {"nodef": None, "none": ("given", None), "list": ("given", ["x", "y"][:res_nd])}[pt["names"]]
    dev_kw = {"nodef": None, "none": ("given", None), "cpu": ("given", "cpu")}[pt["device"]]
    case = {"front": front, "named": named, "nested_keys": nested_keys, "num_threads": nthreads, "is_leaf_custom": node_as_leaf,
            "target": pt["target"], "default": pt["default"], "filter_empty": pt["filter_empty"], "call_on_nested": pt["call_on_nested"],
            "batch_size": new_bs, "names": pt["names"], "device": pt["device"], "propagate_lock": pt["propagate_lock"],
            "batch": list(batch), "self": s, "self_locked": self_locked, "self_names": self_names, "self_device": self_dev,
            "others": ostructs, "other_modes": omodes, "drop": drop, "out": out_struct}
    run.case((stream, L.to_sx(L.norm([list(pt["front"]), pt["target"], pt["default"], pt["filter_empty"], pt["call_on_nested"], pt["batch_size"],
                                       pt["names"], pt["device"], pt["propagate_lock"]])), str(s), str(ostructs), str(drop), self_locked),
             nontrivial=bool(nothers) or pt["target"] != "new")
    for k in ("target", "filter_empty", "call_on_nested", "default", "batch_size", "names", "device", "propagate_lock"):
        run.count(f"{stream}.{k}", str(pt[k]))
    run.count(f"{stream}.front", f"{front}{'+named' if named else ''}{'+nested_keys' if nested_keys else ''}:t{nthreads}{':is_leaf' if node_as_leaf else ''}")
    run.count(f"{stream}.others", "+".join(omodes) or "none")

    # ---- model
    checked = front == "fast"
    o_sx = ["o", pt["target"] == "inplace", pt["default"], pt["filter_empty"], pt["call_on_nested"], named, nested_keys,
            new_bs if new_bs is not None else None,
            "nodef" if names_kw is None else ["given", names_kw[1] if names_kw[1] is not None else None],
            "nodef" if dev_kw is None else ["given", dev_kw[1] if dev_kw[1] is not None else None],
            checked, node_as_leaf, pt["propagate_lock"]]
    self_c = L.canon(self_td)
    others_c = [L.canon(o) for o in others]
    out_c = L.canon(out_td) if out_td is not None else "none"
    if nthreads:
        sched = list(range(len(all_ids) + 8))
        rng.shuffle(sched)
        req = L.to_sx(["c20.mtapply", o_sx, drop, sched, self_c, others_c, out_c])
    else:
        req = L.to_sx(["c20.apply", o_sx, drop, self_c, others_c, out_c])
    model = L.norm(parse_sx(drv.ask(req)))

    # ---- implementation
    rec = L.Recorder(drop, named)
    kw = dict(inplace=pt["target"] == "inplace", filter_empty=pt["filter_empty"], call_on_nested=pt["call_on_nested"],
              propagate_lock=pt["propagate_lock"])
    if pt["default"]:
        kw["default"] = None
    if new_bs is not None:
        kw["batch_size"] = torch.Size(new_bs)
    if names_kw is not None:
        kw["names"] = names_kw[1]
    if dev_kw is not None:
        kw["device"] = dev_kw[1]
    if out_td is not None:
        kw["out"] = out_td
    self_obj, unwrap = self_td, (lambda r: r)
    if container != "plain":
        import c20_containers
        self_obj, unwrap = c20_containers.wrap(container, self_td, s, rng)
        case["container"] = container
        run.count(f"{stream}.container", container)
    if other_container is not None:
        import c20_containers
        others = [c20_containers.wrap(other_container, o, os_, rng)[0] if o.keys() else o for o, os_ in zip(others, ostructs)]
        case["other_container"] = other_container
        run.count(f"{stream}.other_container", other_container)
    before_self = {p: self_td.get(p) for p in L.leaf_paths(s)}
    before_vals = {p: int(v.reshape(-1)[0]) for p, v in before_self.items()}
    before_out = {}
    if out_td is not None and not out_td.is_locked:
        before_out = {p: out_td.get(p) for p in L.leaf_paths(out_struct)}
    try:
        with time_limit(240):
            if front == "apply":
                res = self_obj.apply(rec, *others, **kw)
            elif front == "named_apply":
                res = self_obj.named_apply(rec, *others, nested_keys=nested_keys, **kw)
            else:
                fkw = dict(kw, named=named, nested_keys=nested_keys, num_threads=nthreads)
                if node_as_leaf:
                    fkw["is_leaf"] = lambda cls: True
                res = self_obj._fast_apply(rec, *others, **fkw)
        impl = ["none"] if res is None else ["ok", L.norm(L.canon(unwrap(res), rec))]
        err = None
    except TimeoutError as e:  # a slow box is an infrastructure problem, never a violation
        raise Infra(f"implementation call timed out: {e}")
    except Exception as e:  # noqa: BLE001
        res, err = None, e
        impl = ["err", err_class(e)]
    if (impl == ["err", "runtime"] and model == ["err", "key"] and pt["names"] == "list" and self_names is not None and not checked
            and not pt["default"] and any(m in ("missing", "both") for m in omodes)):
        # two errors are due: the refine_names RuntimeError of writing an earlier nested result under the new names and the
        # KeyError of a later entry the operand lacks. The code interleaves call and write entry by entry, the model runs all
        # calls first (applyEntries) and then the writes (writeOutcomes): which of the two errors surfaces is not modelled.
        run.count(f"{stream}.error_precedence_not_modelled", "refine_names RuntimeError before a later KeyError")
        model = impl
    run.corr(stream, case, impl, model)
    if container != "plain" or other_container is not None:
        return case, impl, model
    # ---- oracle (leaves-only mode): reference over nested dicts + identity / frame / metadata
    oracle(run, case, pt, s, ostructs, drop, self_td, others, out_td, out_struct, res, err, impl, rec, before_self, before_vals, before_out,
           named, nested_keys, node_as_leaf, new_bs, names_kw, dev_kw, self_names, self_dev, self_locked, batch)
    return case, impl, model


def oracle(run, case, pt, s, ostructs, drop, self_td, others, out_td, out_struct, res, err, impl, rec, before_self, before_vals, before_out,
           named, nested_keys, node_as_leaf, new_bs, names_kw, dev_kw, self_names, self_dev, self_locked, batch):
    site = "apply"
    fp0 = f"{pt['front'][0]}:t{pt['front'][3]}:{pt['target']}"
    # others are never modified
    for o, st in zip(others, ostructs):
        for p in L.leaf_paths(st):
            if int(o.get(p).reshape(-1)[0]) >= L.FRESH0:
                run.oracle_fail(site, case, f"an operand was modified at {p}", fp0 + ":other-modified")
                return
    opts = {"default": pt["default"], "named": named, "nested_keys": nested_keys, "nested_as_leaf": bool(pt["call_on_nested"] or node_as_leaf)}
    try:
        ref = L.flatten_ref(L.ref_apply(s, ostructs, opts, set(drop)))
        want_err = False
    except L.KeyMissing:
        ref, want_err = None, True
    if pt["target"] == "out_locked":
        if err is None:
            run.oracle_fail(site, case, "a locked out= was written", fp0 + ":locked-out-written")
        else:
            run.oracle_ok(site)
        return
    if pt["target"].startswith("out") and dev_kw is not None and dev_kw[1] != self_dev and pt["front"][0] != "fast":
        # documented: device and out.device must be equal (apply / named_apply do not re-label out)
        run.oracle_ok(site) if err is not None else run.oracle_fail(site, case, "device override differs from out.device but no error", fp0 + ":device-mismatch-accepted")
        return
    if want_err:
        if err is None:
            run.oracle_fail(site, case, "an operand lacks an entry and no default was given, but no exception was raised", fp0 + ":no-raise")
        else:
            run.oracle_ok(site)
        return
    if err is not None:
        if names_kw is not None and new_bs is None and "refine_names" in str(err):
            # `names=` is documented for the case where batch_size is modified; without it a named nested tensordict cannot be
            # refined to the new names (RuntimeError): undocumented combination, no expectation
            run.count("oracle.skipped", "names override without batch_size on named nested tensordicts")
            return
        run.oracle_fail(site, case, f"raised {type(err).__name__}: {str(err)[:150]} on an admissible option combination", fp0 + f":raises:{err_class(err)}")
        return
    # values by key
    got = {}
    if res is not None:
        got, nodes = L.leaves_of_canon(L.norm(L.canon(res, rec)))
    ref_n = {p: L.norm(v) for p, v in ref.items()}
    if pt["target"] == "inplace":
        expect = {p: ["l", before_vals[p]] for p in before_vals}
        expect.update(ref_n)
    elif pt["target"].startswith("out"):
        # entries of out survive unless the key (or a prefix of it) is rebound by a result
        expect = {p: ["l", int(v.reshape(-1)[0])] for p, v in before_out.items()
                  if not any(p[:i] in ref_n for i in range(1, len(p)))}
        expect.update(ref_n)
    else:
        expect = ref_n
    if res is None:
        if ref_n and pt["target"] != "inplace":
            run.oracle_fail(site, case, "returned None although the function produced values", fp0 + ":none-result")
            return
        if pt["filter_empty"] is False:
            run.oracle_fail(site, case, "returned None with filter_empty=False", fp0 + ":none-result-fe-false")
            return
    else:
        if got != expect:
            miss = [p for p in expect if p not in got]
            extra = [p for p in got if p not in expect]
            diff = [p for p in expect if p in got and got[p] != expect[p]]
            run.oracle_fail(site, case, f"result leaves differ from the reference: missing={miss[:3]} extra={extra[:3]} different={[(p, got[p], expect[p]) for p in diff[:2]]}",
                            fp0 + ":values")
            return
        # identity / frames
        if pt["target"] == "inplace" and res is not self_td:
            run.oracle_fail(site, case, "inplace=True did not return self", fp0 + ":identity"); return
        if pt["target"].startswith("out") and res is not out_td:
            run.oracle_fail(site, case, "out= was given but another object was returned", fp0 + ":identity"); return
        if pt["target"] == "inplace":
            for p, t in before_self.items():
                if self_td.get(p) is not t and self_td.get(p).data_ptr() != t.data_ptr():
                    run.oracle_fail(site, case, f"inplace=True rebound the entry {p} instead of writing into it", fp0 + ":inplace-rebinds"); return
        # metadata of the root
        if pt["target"] == "new":
            want_bs = list(new_bs) if new_bs is not None else list(batch)
            want_dev = dev_kw[1] if dev_kw is not None else self_dev
            if names_kw is not None and new_bs is None:
                want_names = "skip"      # undocumented combination (names without batch_size): root may re-adopt the nested names
            elif names_kw is not None:
                want_names = names_kw[1]
            elif new_bs is not None:
                want_names = None
            else:
                want_names = self_names
            m = L.meta_of(res)
            if m[1] != want_bs:
                run.oracle_fail(site, case, f"batch_size {m[1]} expected {want_bs}", fp0 + ":meta-batch"); return
            if (m[3] if m[3] != "none" else None) != want_dev:
                run.oracle_fail(site, case, f"device {m[3]} expected {want_dev}", fp0 + ":meta-device"); return
            if want_names != "skip" and (m[2] if m[2] != "none" else None) != want_names:
                run.oracle_fail(site, case, f"names {m[2]} expected {want_names}", fp0 + ":meta-names"); return
            want_lock = pt["propagate_lock"] and self_locked
            if bool(res.is_locked) != bool(want_lock):
                run.oracle_fail(site, case, f"is_locked={res.is_locked} expected {want_lock}", fp0 + ":meta-lock"); return
    # self untouched unless inplace
    if pt["target"] != "inplace":
        for p, t in before_self.items():
            cur = self_td.get(p)
            if cur is not t or int(cur.reshape(-1)[0]) != before_vals[p]:
                run.oracle_fail(site, case, f"self was modified at {p} although inplace=False", fp0 + ":self-modified"); return
    run.oracle_ok(site)


def main():
    run = Run("C20")
    run.rule = ("option lattice {front-end (apply, named_apply, _fast_apply x named x nested_keys x num_threads 0/2/4 x custom is_leaf), target (new, inplace, "
                "out empty/prefilled/locked), default, filter_empty None/True/False, call_on_nested, batch_size, names, device override, propagate_lock} "
                "(45 360 points; sampled in quick, enumerated in thorough) x random nested operand structures (depth<=3, nested empties) x others "
                "(0-2, permuted / missing / extra / both) x locked or not x random set of leaves for which the function returns None; "
                "a case is non-trivial when there is an operand or a designated target")
    run.trusted += [
        "Model/C20Apply.lean: hand transcription of TensorDict._apply_nest, _multithread_apply_flat/_rebuild and the front-ends (validated each run by the lattice stream)",
        "the user function is a pure recording function on both sides (Drive/C20.symFn == c20_lib.Recorder); thread scheduling inside CPython's ThreadPoolExecutor "
        "is not controlled: the model is run under a random completion order and the theorem covers every order",
    ]
    run.assumptions += [
        "the user function is pure (no shared mutable state): required by threads_eq_sequential",
        "nested lazy stacks, non-tensor leaves and locked TensorDictParams are checked by the reference oracle only (extended domain); root lazy stacks, tensorclasses, sub-tensordicts and unlocked TensorDictParams run against the model",
    ]
    torch.set_num_threads(2)
    run.build_and_audit(["TdVerif.Props.C20"])
    import c20_shape
    c20_shape.source_shape(run)
    if run.tier == "thorough":
        run.leanchecker(["TdVerif.Props.C20"])
    drv = run.driver()
    rng = run.rng
    if run.tier == "thorough":
        pts = list(lattice_points())
        rng.shuffle(pts)
    else:
        pts = [sample_point(rng) for _ in range(2500)]
    shown = 0
    for pt in pts:
        c = run_point(run, drv, rng, pt)
        if c is None:
            continue
        if shown < 3 and c[1][0] == "ok" and c[0]["others"] and c[0]["target"] != "new":
            run.sample({"stream": "lattice", "case": c[0], "model==impl": c[1] == c[2]})
            shown += 1
    # other container kinds through the SAME lattice and the SAME model (refinement of the plain-tensordict model):
    # a tensorclass, a sub-tensordict (row 0 of a parent) and an (unlocked) TensorDictParams on every front-end, threads included
    n_cont = 250 if run.tier == "quick" else 3000
    done = 0
    while done < n_cont:
        pt = sample_point(rng)
        if run_point(run, drv, rng, pt, stream="containers", container="tensorclass") is not None:
            done += 1
    done = 0
    while done < n_cont:
        pt = sample_point(rng)
        if run_point(run, drv, rng, pt, stream="containers", container="sub_td") is not None:
            done += 1
    done = 0
    while done < n_cont:
        pt = sample_point(rng)
        if run_point(run, drv, rng, pt, stream="containers", container="params") is not None:
            done += 1
    # ... and the same three container kinds as OPERANDS of a plain tensordict (entries found by key through their `_get_str`)
    for kind in ("tensorclass", "sub_td", "params"):
        done = 0
        while done < (120 if run.tier == "quick" else 1500):
            pt = sample_point(rng)
            if run_point(run, drv, rng, pt, stream="containers", other_container=kind) is not None:
                done += 1
    import c20_lazy
    c20_lazy.run_lazy_lattice(run, drv, rng, 400 if run.tier == "quick" else 4000)
    c20_lazy.run_validation_oracle(run, rng, 30 if run.tier == "quick" else 200)
    c20_lazy.run_subtd_writeback(run, rng, 20 if run.tier == "quick" else 150)
    c20_lazy.run_lazy_others_oracle(run, rng, 40 if run.tier == "quick" else 300)
    import c20_extended
    c20_extended.run_extended(run, rng)
    run.finish("proof")


if __name__ == "__main__":
    main_guard(main)
