#!/bin/bash
# try_mutant.sh <patch.diff> <Cxx> [tier]: apply a seeded change to /repo, run the check, undo the change
PATCH="$1"; P="$2"; T="${3:-quick}"
cd /repo && git apply "$PATCH" || { echo "patch does not apply"; exit 3; }
cd /verif && timeout 3000 ./check "$P" --tier "$T" > /tmp/try_mutant_$P.log 2>&1; RC=$?
git -C /repo checkout -- .
git -C /verif checkout -- "evidence/$P.json" lean/TdVerif/Gen 2>/dev/null  # evidence must come from runs on the unchanged tree
tail -6 /tmp/try_mutant_$P.log
echo "check exit=$RC"
