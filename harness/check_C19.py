"""C19 — vmap over tensordicts equals the per-sample loop (DESIGN §6 C19).

Streams
  leaf        functorch primitive on plain tensors (wrap at i / unwrap at o) vs Model `removeBDLeaf ∘ addBDLeaf`
  norm        `in_dim % rank` and the out_dim normalisation vs Model `normInDim/normOutDim`
  vmap        modelled domain: torch.vmap(program, in_dims, out_dims)(tensordict) on the real library vs the
              compiled model of the code path (`c19.vmap` = addBD → runProgB → removeBD) — batch size, names, every leaf
  memo_hist   histories on locked tensordicts / lazy stacks between real vmap calls (in-place writes, memmap_, names, batch_size,
              unlock/set/lock, refused unlocks): lock ancestors and wrapper identities vs Model/C19MemoHist.lean (+ value oracle)
  loop(model) the model's specification side (`c19.loop` = stackTD ∘ map runProg ∘ unbindTD) against the model's
              code path on the same inputs (the theorem `vmap_td_eq_loop`, exercised through the driver)
Oracle (property itself on the real code): stack([f(slice_k)], out_dim) computed by the real library, for the
modelled programs and for the extended domain (multi-argument in_dims incl. None, tuple / mixed outputs, module
calls through to_module, lazy stacks, locked inputs reused across calls with in-place writes in between).
"""
from __future__ import annotations

import itertools
import warnings

import torch

from common import Infra, Run, err_class, main_guard, parse_sx, sx, time_limit
import c19_programs as G

warnings.filterwarnings("ignore")


def ask_chunked(drv, lines, budget=16000):
    out, cur, size = [], [], 0
    for l in lines:
        if cur and size + len(l) > budget:
            out += drv.ask_many(cur)
            cur, size = [], 0
        cur.append(l)
        size += len(l) + 1
    if cur:
        out += drv.ask_many(cur)
    return out


def td_sx(batch, names, feats=((2,), (), (1,))):
    return ["td", ["batch"] + list(batch), ["names"] + list(names or [None] * len(batch)),
            ["leaves"] + [[k] + list(f) for k, f in zip(G.KEYS, feats)]]


def norm_in(i, r):
    return i % r


def real_vmap(prog, td, i, o):
    with time_limit(30):
        return torch.vmap(lambda t: G.run_real(prog, t), in_dims=i, out_dims=o)(td)


def real_loop(prog, td, i, o):
    """the property's oracle: stack of the function applied to every slice"""
    with time_limit(30):
        r = td.batch_dims
        if td.batch_size[i % r] == 0:
            # empty vmapped dimension: structure from a size-1 stand-in, then the stacked dimension is emptied
            b1 = list(td.batch_size)
            b1[i % r] = 1
            stand = G.make_td(b1, list(td.names) if td._has_names() else None)
            one = real_loop(prog, stand, i, o)
            pos = o if o >= 0 else o + one.batch_dims
            return one[(slice(None),) * pos + (slice(0, 0),)]
        outs = [G.run_real(prog, s) for s in td.unbind(i % r)]
        rank_out = outs[0].batch_dims if hasattr(outs[0], "batch_dims") else outs[0].dim()
        if not (-(rank_out + 1) <= o <= rank_out):
            raise IndexError("out_dim out of range")
        return torch.stack(outs, o if o >= 0 else o + rank_out + 1)


def attempt(fn):
    try:
        return G.canon_td(fn())
    except TimeoutError:
        raise
    except Exception as e:
        return ["err"]


BATCHES = [(2,), (3,), (1,), (2, 3), (3, 1), (2, 2), (2, 3, 2), (1, 2, 3), (3, 2, 2)]


def main():
    run = Run("C19")
    run.rule = ("batch shapes of rank 1-3 x every in_dims in [-r, r) x every out_dims in [-(r'+1), r'] x programs from the generator "
                "(17 tensordict ops + nested vmap of depth 2) x named/unnamed x locked/unlocked; a case is non-trivial when vmap ran (no error) on a non-empty program or a non-identity dim pair")
    run.trusted += [
        "functorch (torch._functorch.vmap interpreter, BatchedTensor): runtime; its wrap/unwrap primitive is ASSUMED in the model (BT.sample/ofSamples) and validated on plain tensors by the `leaf` stream of this check",
        "Model/C19Ops.lean: hand transcription of the 17 tensordict operations used inside vmapped programs (their batch semantics belong to C02); the C19 theorems quantify over arbitrary operations",
        "torch.stack / unbind on tensordicts as the oracle's reference (the per-sample loop itself runs on the real library)",
    ]
    run.assumptions += ["per-sample semantics of batched tensors (functorch) is assumed, not proved; module calls, tuple outputs, None in_dims, lazy stacks are covered by the oracle stream only"]
    import c07_gen
    import gen_tables
    try:
        gen_tables.write_if_changed("C19Shapes.lean", c07_gen.gen_c19_shapes())
    except Exception as e:
        run.proof_broken.append(f"generator:C19Shapes:{type(e).__name__}:{e}")
    run.build_and_audit(["TdVerif.Props.C19"])
    if run.tier == "thorough":
        run.leanchecker(["TdVerif.Props.C19", "TdVerif.Lemmas.C19Vmap", "TdVerif.Model.C19Vmap", "TdVerif.Model.C19Ops"])
    drv = run.driver()
    rng = run.rng
    quick = run.tier == "quick"

    # ------------------------------------------------------------------ 1. leaf primitive on plain tensors
    shapes = [(2,), (2, 3), (3, 2, 2), (1, 3), (2, 1, 3, 2)] + ([(4, 2, 3), (2, 2, 2, 2)] if not quick else [])
    reqs, exp = [], []
    for s in shapes:
        for i in range(len(s)):
            for o in range(len(s)):
                n = 1
                for d in s:
                    n *= d
                t = torch.arange(n).reshape(s)
                r = torch.vmap(lambda x: x, in_dims=i, out_dims=o)(t)
                reqs.append(sx("c19.leaf", ["shape"] + list(s), i, o))
                exp.append((s, i, o, [list(r.shape), r.reshape(-1).tolist()]))
                # the spec form of the oracle, on torch itself
                ref = torch.stack(list(t.unbind(i)), o)
                if not torch.equal(ref, r):
                    run.oracle_fail("leaf_primitive", [list(s), i, o], "torch.vmap(identity) != stack(unbind)", "leaf")
                else:
                    run.oracle_ok("leaf_primitive")
    for (s, i, o, e), a in zip(exp, ask_chunked(drv, reqs)):
        run.case(("leaf", s, i, o), nontrivial=i != o)
        run.corr("leaf(functorch primitive)", [list(s), i, o], e, parse_sx(a))
    # ------------------------------------------------------------------ 2. dimension normalisation
    for r in range(1, 5):
        for d in range(-r - 1, r + 1):
            a = parse_sx(drv.ask(sx("c19.norm", d, r)))
            run.case(("norm", d, r), nontrivial=d < 0)
            if -r <= d < r:
                run.corr("norm_in", [d, r], d % r, a[0])
            lst = list(range(r))
            lst.insert(d, "B")
            run.corr("py_insert", [d, r], lst.index("B"), a[2])
            if -(r + 1) <= d <= r:
                run.corr("norm_out", [d, r], d if d >= 0 else d + r + 1, a[1])


    # ------------------------------------------------------------------ 2b. memoisation of _add_batch_dim: keyed by (in_dim, vmap_level), only on locked tensordicts
    from torch._C._functorch import maybe_current_level
    for it in range(40 if quick else 400):
        b = rng.choice([(2, 3), (2, 3, 2), (3, 2)])
        locked = rng.random() < 0.7
        td = G.make_td(b, locked=locked)
        plan = [[(rng.choice([1, 1, 2]), rng.randrange(len(b))) for _ in range(rng.randint(1, 4))] for _ in range(rng.randint(1, 3))]   # per vmap call: (depth, in_dim)
        got, reqs_m = [], []
        def record(depth, i):
            L = maybe_current_level()
            got.append(td._add_batch_dim(in_dim=i, vmap_level=L))
            reqs_m.append([i, L])
        for call in plan:
            def outer(x, call=call):
                for depth, i in call:
                    if depth == 1:
                        record(1, i)
                    else:
                        torch.vmap(lambda y, i=i: (record(2, i), y)[1])(x)
                return x
            with time_limit(30):
                torch.vmap(outer)(torch.zeros(2, 2))
        impl = [[k for k, p in enumerate(got) if p is o][0] for o in got]
        model = parse_sx(drv.ask(sx("c19.memo", locked, *reqs_m)))
        run.case(("memo", it, locked, str(reqs_m)), nontrivial=locked and len(reqs_m) > 1)
        run.count("memo.locked", locked)
        run.corr("memo(keying)", {"batch": list(b), "locked": locked, "requests": reqs_m}, impl, model)

    # ------------------------------------------------------------------ 2c. histories on locked tensordicts between vmap calls (lock graph, rebinding ops)
    import c19_memohist
    c19_memohist.run_stream(run, drv, rng, quick)

    # ------------------------------------------------------------------ 3. vmap on tensordicts: modelled domain
    cases = []
    # corpus first
    corpus = [((2, 3, 4), None, 0, -1, []), ((2, 3), ["d0", "d1"], -1, -1, []), ((2, 3), None, 1, -2, [("mul2",)]),
              ((2, 3), None, 0, 0, [("vmap", 0, -1, [("add1",)])]),
              ((2, 3, 2), None, 0, -1, [("mul2",), ("deepen",)]), ((2, 3, 2), None, 1, -2, [("deepen",)]), ((2, 2), None, 0, -2, [("deepen",)]),
              ((2, 3), None, 1, 0, [("setconst",)])]
    for c in corpus:
        cases.append(c + (False,))
    # the full (in_dim, out_dim) grid on the identity and on one-op programs
    for b in BATCHES:
        r = len(b)
        for i in range(-r, r):
            for o in range(-r, r):          # identity program: per-sample rank r-1, out in [-(r), r-1]
                cases.append((b, None, i, o, [], False))
    # vmapped (or other) dimensions of size 0: there is no sample, stack([]) is undefined; the expectation is the empty stack
    # with the structure of the per-sample output (taken from a size-1 stand-in)
    for b0 in [(0,), (0, 3), (2, 0), (0, 0), (2, 0, 3), (0, 2, 2)]:
        r0 = len(b0)
        for i in range(-r0, r0):
            for o in range(-r0, r0):
                cases.append((b0, None, i, o, [], False))
        for _ in range(6 if quick else 40):
            i = rng.randrange(-r0, r0)
            inner = list(b0[:i % r0] + b0[i % r0 + 1:])
            prog, (bo, _) = G.gen_prog(rng, inner, G.KEYS, depth=0, maxlen=3, allow_vmap=False)
            # functorch itself fails on arithmetic with an empty batch of 0-d samples (torch.vmap(lambda x: x * 2)(torch.zeros(0))
            # raises IndexError without any tensordict): size-0 programs stay with shape / key operations
            if any(op[0] in ("mul2", "add1", "neg", "sum0", "setmul3", "setconst", "cat_self") for op in prog):
                continue
            cases.append((b0, None, i, rng.randrange(-(len(bo) + 1), len(bo) + 1), prog, False))
    nrand = 3000 if quick else 30000
    for _ in range(nrand):
        b = rng.choice(BATCHES)
        r = len(b)
        names = [f"d{j}" for j in range(r)] if rng.random() < 0.4 else None
        if names and rng.random() < 0.3:
            names[rng.randrange(r)] = None
        i = rng.randrange(-r, r)
        inner = list(b[:i % r] + b[i % r + 1:])
        prog, (bo, _) = G.gen_prog(rng, inner, G.KEYS, depth=2 if rng.random() < 0.25 else 1)
        ro = len(bo)
        o = rng.randrange(-(ro + 1), ro + 1)
        cases.append((b, names, i, o, prog, rng.random() < 0.3))
    # malformed stream: out-of-range dims
    for _ in range(100 if quick else 1000):
        b = rng.choice(BATCHES)
        r = len(b)
        i = rng.choice([r, r + 1, -r - 1]) if rng.random() < 0.5 else rng.randrange(-r, r)
        o = rng.choice([r + 1, r + 2, -r - 2]) if rng.random() < 0.7 else 0
        cases.append((b, None, i, o, [], False))
    reqs, reqs_loop, impl, meta = [], [], [], []
    for (b, names, i, o, prog, locked) in cases:
        td = G.make_td(b, names, locked=locked)
        case = {"batch": list(b), "names": names, "in_dim": i, "out_dim": o, "prog": G.sx_prog(prog), "locked": locked}
        empty_batch_limit = []
        def vm():
            try:
                return real_vmap(prog, td, i, o)
            except IndexError as e:
                if 0 in b and "select(): index 0 out of range" in str(e):
                    empty_batch_limit.append(1)     # functorch's own fallback on an empty batch (reproducible on plain tensors)
                raise
        got = attempt(vm)
        if empty_batch_limit:
            run.count("vmap.outcome", "functorch-empty-batch-limit")
            continue
        ref = attempt(lambda: real_loop(prog, G.make_td(b, names), i, o)) if -len(b) <= i < len(b) else ["err"]
        run.case(("vmap", str(case)), nontrivial=got[0] == "ok" and (bool(prog) or i != o))
        run.count("vmap.rank", len(b))
        run.count("vmap.in_sign", "neg" if i < 0 else "nonneg")
        run.count("vmap.out_sign", "neg" if o < 0 else "nonneg")
        run.count("vmap.prog_len", len(prog))
        run.count("vmap.outcome", got[0])
        run.count("vmap.nested", any(op[0] == "vmap" for op in prog))
        for op in prog:
            run.count("vmap.op", op[0])
        # property oracle on the real code (dimension names are not part of the property: torch.stack drops them)
        strip = lambda c: [c[0]] + [x for x in c[1:] if x[0] != "names"] if c[0] == "ok" else c
        if strip(got) != strip(ref):
            what = f"vmap={str(got)[:160]} loop={str(ref)[:160]}"
            fp = "neg_out_dim" if (o < 0 and got[0] == "err" and ref[0] == "ok") else ("err_mismatch" if got[0] != ref[0] else "value")
            run.oracle_fail("vmap_vs_loop", case, what, fingerprint=fp + "|" + ",".join(op[0] for op in prog))
        else:
            run.oracle_ok("vmap_vs_loop")
        reqs.append(sx("c19.vmap", td_sx(b, names), i, o, G.sx_prog(prog)))
        if -len(b) <= i < len(b) and ref[0] == "ok" and b[i % len(b)] > 0:      # the spec side stack([]) is undefined for an empty vmapped dim
            rank_out = len(ref[1]) - 1 - 1
            reqs_loop.append((len(reqs) - 1, sx("c19.loop", td_sx(b, names), i % len(b), o if o >= 0 else o + rank_out + 1, G.sx_prog(prog))))
        impl.append(got)
        meta.append(case)
    answers = ask_chunked(drv, reqs)
    for case, got, a in zip(meta, impl, answers):
        run.corr("vmap(code path)", case, got, G.canon_model(parse_sx(a)))
    loop_answers = ask_chunked(drv, [q for _, q in reqs_loop])
    for (idx, _), la in zip(reqs_loop, loop_answers):
        nonodes = lambda c: [x for x in c if not (isinstance(x, list) and x and x[0] == "nodes")]
        run.corr("loop(model spec vs model code path)", meta[idx], nonodes(G.canon_model(parse_sx(answers[idx]))), nonodes(G.canon_model(parse_sx(la))))
    run.sample({"stream": "vmap", "case": meta[len(corpus) + 3], "model": answers[len(corpus) + 3][:300]})



    # ------------------------------------------------------------------ 3c. two arguments, in_dims None for one of them: f(a, b) = prog(a.apply(add, b))
    reqs, impl, meta = [], [], []
    for _ in range(250 if quick else 2500):
        b1 = rng.choice(BATCHES)
        r = len(b1)
        i1 = rng.randrange(-r, r)
        inner = list(b1[:i1 % r] + b1[i1 % r + 1:])
        B = b1[i1 % r]
        kind = rng.choice(["both", "second_none", "first_none"])
        if kind == "both":
            j = rng.randrange(0, len(inner) + 1)
            b2 = inner[:j] + [B] + inner[j:]
            i2 = j - len(b2) if rng.random() < 0.4 else j
            ba, ia, bb, ib = b1, i1, b2, i2
        elif kind == "second_none":
            ba, ia, bb, ib = b1, i1, inner, None
        else:
            ba, ia, bb, ib = inner, None, b1, i1
        prog, (bo, _) = G.gen_prog(rng, inner, G.KEYS, depth=0, maxlen=2, allow_vmap=False)
        ro = len(bo)
        o = rng.randrange(-(ro + 1), ro + 1)
        f = lambda t, u, prog=prog: G.run_real(prog, t.apply(lambda x, y: x + y, u))
        ta, tb = G.make_td(ba), G.make_td(bb)
        case = {"batch_a": list(ba), "batch_b": list(bb), "in_dims": [ia, ib], "out_dim": o, "prog": G.sx_prog(prog)}
        def go():
            with time_limit(30):
                return torch.vmap(f, in_dims=(ia, ib), out_dims=o)(ta, tb)
        got = attempt(go)
        def ref_fn():
            with time_limit(30):
                outs = [f(ta if ia is None else ta.unbind(ia % len(ba))[k], tb if ib is None else tb.unbind(ib % len(bb))[k]) for k in range(B)]
                rank_out = outs[0].batch_dims
                if not (-(rank_out + 1) <= o <= rank_out):
                    raise IndexError("out_dim")
                return torch.stack(outs, o if o >= 0 else o + rank_out + 1)
        ref = attempt(ref_fn)
        run.case(("vmap2", str(case)), nontrivial=got[0] == "ok")
        run.count("vmap2.kind", kind)
        strip = lambda c: [c[0]] + [x for x in c[1:] if x[0] != "names"] if c[0] == "ok" else c
        if strip(got) != strip(ref):
            run.oracle_fail("vmap2_vs_loop", case, f"vmap={str(got)[:160]} loop={str(ref)[:160]}", fingerprint="vmap2|" + kind)
        else:
            run.oracle_ok("vmap2_vs_loop")
        reqs.append(sx("c19.vmap2", td_sx(ba, None), td_sx(bb, None), ia, ib, o, G.sx_prog(prog)))
        impl.append(got)
        meta.append(case)
    for case, got, a in zip(meta, impl, ask_chunked(drv, reqs)):
        run.corr("vmap2(code path)", case, got, G.canon_model(parse_sx(a)))


    # ------------------------------------------------------------------ 3d. tuple / mixed outputs with per-output out_dims: f(td) = (prog(td), prog(td)[key])
    reqs1, reqs2, impl, meta = [], [], [], []
    for _ in range(200 if quick else 2000):
        b = rng.choice(BATCHES)
        r = len(b)
        i = rng.randrange(-r, r)
        inner = list(b[:i % r] + b[i % r + 1:])
        prog, (bo, ks) = G.gen_prog(rng, inner, G.KEYS, depth=0, maxlen=3, allow_vmap=False)
        key = rng.choice(ks)
        ro = len(bo)
        o1 = rng.randrange(-(ro + 1), ro + 1)
        o2 = rng.randrange(0, ro + 1)          # the tensor output: positions inside its batch dims (leaf rank may be larger)
        same_obj = rng.random() < 0.3          # ONE result object returned twice, each position unwrapped at its own out_dim
        if same_obj:
            o2 = rng.randrange(-(ro + 1), ro + 1)
        def f(t, prog=prog, key=key, same_obj=same_obj):
            out = G.run_real(prog, t)
            return (out, out) if same_obj else (out, out.get(G.rk(out, key)))
        td = G.make_td(b)
        case = {"batch": list(b), "in_dim": i, "out_dims": [o1, o2], "prog": G.sx_prog(prog), "key": "(the same object)" if same_obj else key}
        def go():
            with time_limit(30):
                return torch.vmap(f, in_dims=i, out_dims=(o1, o2))(td)
        got = attempt(go)
        run.case(("vmap_tuple", str(case)), nontrivial=got[0] == "seq")
        run.count("tuple.outcome", got[0])
        reqs1.append(sx("c19.vmap", td_sx(b, None), i, o1, G.sx_prog(prog)))
        reqs2.append(sx("c19.vmap", td_sx(b, None), i, o2, G.sx_prog(prog if same_obj else prog + [("select", key)])))
        impl.append(got)
        meta.append((case, same_obj))
        run.count("tuple.same_object", same_obj)
    a1 = ask_chunked(drv, reqs1)
    a2 = ask_chunked(drv, reqs2)
    for (case, same_obj), got, x1, x2 in zip(meta, impl, a1, a2):
        m1, m2 = G.canon_model(parse_sx(x1)), G.canon_model(parse_sx(x2))
        if same_obj and m1[0] == "ok" and m2[0] == "ok":
            model = ["seq", m1, m2]
        elif m1[0] == "ok" and m2[0] == "ok":
            leaf = m2[3][1]
            model = ["seq", m1, ["t", leaf[1], leaf[2]]]
        else:
            model = ["err"]
        run.corr("vmap_tuple(code path)", case, got, model)


    # ------------------------------------------------------------------ 3e. functional module calls through to_module with batched parameter tensordicts
    from tensordict import TensorDict
    reqs, impl, meta = [], [], []
    combos = [(B, nout, nin, pin, xin, o) for B in (1, 2, 3) for nout in (1, 2) for nin in (1, 3) for pin in (0, -1, None)
              for xin in (None, 0, 1, -1, -2) for o in (0, 1, -1, -2) if not (pin is None and xin is None)]
    if quick:
        combos = rng.sample(combos, 160)
    for (B, nout, nin, pin, xin, o) in combos:
        net = torch.nn.Linear(nin, nout).double()
        own = [net.weight, net.bias]
        if pin is None:
            params = TensorDict({"weight": torch.arange(1, 1 + nout * nin, dtype=torch.float64).reshape(nout, nin),
                                 "bias": torch.arange(100, 100 + nout, dtype=torch.float64)}, batch_size=[])
        else:
            params = TensorDict({"weight": torch.arange(1, 1 + B * nout * nin, dtype=torch.float64).reshape(B, nout, nin),
                                 "bias": torch.arange(100, 100 + B * nout, dtype=torch.float64).reshape(B, nout)}, batch_size=[B])
        if rng.random() < 0.4:
            params.lock_()
        xshape = (nin,) if xin is None else ((B, nin) if xin in (0, -2) else (nin, B))
        n = 1
        for d in xshape:
            n *= d
        x = torch.arange(1000, 1000 + n, dtype=torch.float64).reshape(xshape)
        def call(p, xx, net=net):
            with p.to_module(net):
                return net(xx)
        case = {"B": B, "out": nout, "in": nin, "params_in_dim": pin, "x_in_dim": xin, "out_dim": o, "locked": params.is_locked}
        def go():
            with time_limit(30):
                r = torch.vmap(call, in_dims=(pin, xin), out_dims=o)(params, x)
            return [list(r.shape), [int(v) for v in r.reshape(-1).tolist()]]
        try:
            got = go()
        except TimeoutError:
            raise
        except Exception as e:
            got = ["err"]
        def ref_fn():
            outs = [call(params if pin is None else params[k], x if xin is None else x.select(xin, k)) for k in range(B)]
            if not (-2 <= o <= 1):
                raise IndexError("out_dim")
            r = torch.stack(outs, o if o >= 0 else o + 2)
            return [list(r.shape), [int(v) for v in r.reshape(-1).tolist()]]
        try:
            ref = ref_fn()
        except Exception:
            ref = ["err"]
        run.case(("vmap_linear", str(case)), nontrivial=got[0] != "err")
        run.count("module.outcome", "ok" if got[0] != "err" else "err")
        if got != ref:
            run.oracle_fail("module_vs_loop", case, f"vmap={str(got)[:150]} loop={str(ref)[:150]}", fingerprint="module")
        elif net.weight is not own[0] or net.bias is not own[1] or not isinstance(net.weight, torch.nn.Parameter):
            run.oracle_fail("module_vs_loop", case, "the module was not left with its own parameters after the vmapped functional call", fingerprint="module_restore")
        else:
            run.oracle_ok("module_vs_loop")
        reqs.append(sx("c19.vmap_linear", B, nout, nin, pin, xin, o))
        impl.append(got)
        meta.append(case)
    for case, got, a in zip(meta, impl, ask_chunked(drv, reqs)):
        a = parse_sx(a)
        run.corr("vmap_linear(to_module)", case, got, a if a[0] != "err" else ["err"])
    # ... and a module with a NESTED parameter tensordict: Sequential(Linear(nin, hid), Linear(hid, nout))
    reqs, impl, meta = [], [], []
    combos = [(B, hid, nout, nin, pin, xin, o) for B in (1, 2, 3) for hid in (1, 2) for nout in (1, 2) for nin in (2,) for pin in (0, -1, None)
              for xin in (None, 0, 1, -2) for o in (0, 1, -1) if not (pin is None and xin is None)]
    if quick:
        combos = rng.sample(combos, 100)
    for (B, hid, nout, nin, pin, xin, o) in combos:
        net = torch.nn.Sequential(torch.nn.Linear(nin, hid), torch.nn.Linear(hid, nout)).double()
        own = list(net.parameters())
        pb = () if pin is None else (B,)
        def ar(start, shape):
            n = 1
            for d in shape:
                n *= d
            return torch.arange(start, start + n, dtype=torch.float64).reshape(shape)
        params = TensorDict({"0": TensorDict({"weight": ar(1, pb + (hid, nin)), "bias": ar(50, pb + (hid,))}, batch_size=pb),
                             "1": TensorDict({"weight": ar(2, pb + (nout, hid)), "bias": ar(70, pb + (nout,))}, batch_size=pb)}, batch_size=pb)
        if rng.random() < 0.4:
            params.lock_()
        xshape = (nin,) if xin is None else ((B, nin) if xin in (0, -2) else (nin, B))
        x = ar(10, xshape)
        def call(p, xx, net=net):
            with p.to_module(net):
                return net(xx)
        case = {"module": "Sequential(Linear,Linear)", "B": B, "hid": hid, "out": nout, "in": nin, "params_in_dim": pin, "x_in_dim": xin, "out_dim": o, "locked": params.is_locked}
        try:
            with time_limit(30):
                r = torch.vmap(call, in_dims=(pin, xin), out_dims=o)(params, x)
            got = [list(r.shape), [int(v) for v in r.reshape(-1).tolist()]]
        except TimeoutError:
            raise
        except Exception:
            got = ["err"]
        try:
            outs = [call(params if pin is None else params[k], x if xin is None else x.select(xin, k)) for k in range(B)]
            r = torch.stack(outs, o if o >= 0 else o + 2)
            ref = [list(r.shape), [int(v) for v in r.reshape(-1).tolist()]]
        except Exception:
            ref = ["err"]
        run.case(("vmap_seq2", str(case)), nontrivial=got[0] != "err")
        run.count("module.outcome", "seq2-ok" if got[0] != "err" else "seq2-err")
        now = list(net.parameters())
        if got != ref:
            run.oracle_fail("module_vs_loop", case, f"vmap={str(got)[:150]} loop={str(ref)[:150]}", fingerprint="module_seq2")
        elif len(now) != len(own) or any(a_ is not b_ for a_, b_ in zip(now, own)):
            run.oracle_fail("module_vs_loop", case, "the module was not left with its own parameters after the vmapped functional call", fingerprint="module_restore")
        else:
            run.oracle_ok("module_vs_loop")
        reqs.append(sx("c19.vmap_seq2", B, hid, nout, nin, pin, xin, o))
        impl.append(got)
        meta.append(case)
    for case, got, a in zip(meta, impl, ask_chunked(drv, reqs)):
        a = parse_sx(a)
        run.corr("vmap_seq2(to_module, nested params)", case, got, a if a[0] != "err" else ["err"])

    # ------------------------------------------------------------------ 3b. lazily stacked tensordicts: the lazy code path of the model vs the real library
    lz_cases = []
    for b in [(2,), (2, 3), (3, 2), (2, 3, 2), (2, 1, 3)]:
        r = len(b)
        for sd in range(r):
            for i in range(-r, r):
                for o in range(-r, r):
                    lz_cases.append((b, sd, i, o, []))
    for _ in range(150 if quick else 1500):
        b = rng.choice([(2,), (2, 3), (3, 2), (2, 3, 2), (2, 1, 3)])
        r = len(b)
        prog = [(rng.choice(["mul2", "add1", "neg", "clone"]),) for _ in range(rng.randint(0 if rng.random() < 0.5 else 1, 3))]
        if rng.random() < 0.4:
            prog = [("setmul3", rng.choice(["a", "b"]), "z")] + prog      # read-compute-write through hook_out / hook_in, first
        if rng.random() < 0.5:
            prog = [("setconst",)] + prog       # an un-batched value written into the (possibly hidden-stack) lazy argument, first
        if not prog:
            prog = [("setconst",)]
        lz_cases.append((b, rng.randrange(r), rng.randrange(-r, r), rng.randrange(-r, r), prog))
    reqs, impl, meta = [], [], []
    for (b, sd, i, o, prog) in lz_cases:
        td = G.make_td(b, lazy=True, stack_dim=sd)
        case = {"batch": list(b), "stack_dim": sd, "in_dim": i, "out_dim": o, "prog": G.sx_prog(prog)}
        got = attempt(lambda: real_vmap(prog, td, i, o))
        ref = attempt(lambda: real_loop(prog, G.make_td(b, lazy=True, stack_dim=sd), i, o))
        derived = (i % len(b) == sd) and any(p[0] not in ("setconst", "setmul3") for p in prog)
        run.case(("vmap_lazy", str(case)), nontrivial=got[0] == "ok")
        run.count("lazy.path", "hidden-stack" if i % len(b) == sd else "member-wise")
        run.count("lazy.outcome", got[0])
        strip = lambda c: [c[0]] + [x for x in c[1:] if x[0] != "names"] if c[0] == "ok" else c
        if strip(got) != strip(ref):
            run.oracle_fail("ext.lazy", case, f"vmap={str(got)[:160]} loop={str(ref)[:160]}",
                            fingerprint=("value" if got[0] == ref[0] else "err_mismatch") + ("|lazy_stackdim|" if derived else "|lazy_other|") + ",".join(p[0] for p in prog))
        else:
            run.oracle_ok("ext.lazy")
        reqs.append(sx("c19.vmap_lazy", td_sx(b, None), sd, i, o, G.sx_prog(prog)))
        impl.append(got)
        meta.append(case)
    for case, got, a in zip(meta, impl, ask_chunked(drv, reqs)):
        strip = lambda c: [c[0]] + [x for x in c[1:] if x[0] != "names"] if c[0] == "ok" else c
        run.corr("vmap_lazy(code path)", case, strip(got), strip(G.canon_model(parse_sx(a))))

    # ------------------------------------------------------------------ 4. extended domain (oracle only)
    import c19_extended
    c19_extended.run_all(run)
    run.finish("proof")


if __name__ == "__main__":
    main_guard(main)
