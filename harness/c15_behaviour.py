"""C15 — differential run of the tensordict API on a tensorclass vs its `_tensordict`.

For one (class, method, candidate arguments):
  * two identically built instances `tcA`, `tcB`; the method is called on `tcA` and on `tcB._tensordict`;
  * correspondence: what the real wrapper returned (self / same class around which tensordict /
    bare tensordict / other / which exception) must equal what the Lean model (`wrapCall`,
    `wrapMethodFallback`) predicts from the *shape* of the tensordict-side result and the model's
    `dispatch` kind for that name;
  * oracle (the property itself): same values, same side effects, re-wrapped in the same class iff the
    result is a tensordict whose keys are declared fields, non-tensor fields intact, attribute
    access == key access on the result.
"""
from __future__ import annotations

import math
import os
import shutil
import tempfile
import warnings

import numpy as np
import torch
from tensordict import TensorDictBase, is_tensorclass
from tensordict.tensorclass import NonTensorData, NonTensorStack

import c15_classes as Z
from common import err_class, sx, time_limit

UNINIT = {"new_empty", "empty_like"}          # uninitialised memory: shapes only
ADDRESSES = {"data_ptr"}                       # values are storage addresses of two separately built instances: shapes only


# --------------------------------------------------------------------------- canonical forms
def canon(o, depth=0, values=True):
    if depth > 8:
        return "deep"
    if o is None or isinstance(o, (bool, int, str)):
        return o
    if isinstance(o, float):
        return "nan" if math.isnan(o) else repr(o)
    if isinstance(o, torch.Tensor):
        t = o.detach()
        if not values:
            return ["T", str(t.dtype), list(t.shape)]
        try:
            if t.is_quantized:
                t = t.dequantize()
            if t.dtype.is_complex:
                t = torch.view_as_real(t)
            flat = t.to(torch.float64).flatten().tolist() if t.dtype != torch.bool else t.flatten().tolist()
            flat = ["nan" if isinstance(v, float) and math.isnan(v) else v for v in flat]
        except Exception:
            flat = "unreadable"
        return ["T", str(o.dtype), list(o.shape), flat]
    if isinstance(o, type):
        return ["type", o.__name__]
    if isinstance(o, NonTensorData):
        # one shared payload or a per-position stack is a representation choice (property C16): both canonicalise
        # to the batch-shaped nested list of payloads
        d = canon(o.data, depth + 1, values)
        for n in reversed(list(o.batch_size)):
            d = ["list", [d] * n]
        return ["NTV", list(o.batch_size), d]
    if isinstance(o, NonTensorStack):
        return ["NTV", list(o.batch_size), canon(o.tolist(), depth + 1, values)]
    if is_tensorclass(o):
        return ["TC", type(o).__name__, canon(o._tensordict, depth + 1, values),
                sorted((k, canon(v, depth + 1, values)) for k, v in o._non_tensordict.items())]
    if isinstance(o, TensorDictBase):
        try:
            names = list(o.names) if o._has_names() else None
        except Exception:
            names = None
        items = []
        for k in sorted(o.keys()):
            items.append([k, canon(o.get(k), depth + 1, values)])
        # lock state is not part of this property (C05/C06): not canonicalised
        return ["TD", list(o.batch_size), str(o.device), names, None, items]
    if isinstance(o, dict):
        return ["dict", sorted(([str(k), canon(v, depth + 1, values)] for k, v in o.items()), key=lambda kv: kv[0])]
    if isinstance(o, (list, tuple)):
        return [type(o).__name__ if type(o) in (list, tuple) else "seq", [canon(v, depth + 1, values) for v in o]]
    if isinstance(o, np.ndarray):
        return ["np", str(o.dtype), list(o.shape), canon(o.tolist(), depth + 1, values) if o.dtype != object and o.dtype.names is None else "struct"]
    if isinstance(o, (torch.Size,)):
        return ["size", list(o)]
    if isinstance(o, (torch.dtype, torch.device)):
        return str(o)
    if isinstance(o, type):
        return ["type", o.__name__]
    if hasattr(o, "__iter__") and not hasattr(o, "__len__") or type(o).__name__ in ("_TensorDictKeysView", "dict_keys", "dict_values", "dict_items", "odict_keys"):
        try:
            seq = list(o)
        except Exception as e:
            return ["iter-raises", err_class(e)]
        c = [canon(v, depth + 1, values) for v in seq]
        if type(o).__name__ in ("_TensorDictKeysView", "dict_keys"):
            c = sorted(c, key=str)
        return ["iter", c]
    return ["obj", type(o).__name__]


# --------------------------------------------------------------------------- context for the synthesiser
class Ctx:
    def __init__(self, cls, scratch, flavour="float"):
        self.cls = cls
        self.scratch = scratch
        self.flavour = flavour
        self._n = 0

    def other(self, side, seed):
        o = Z.make(self.cls, seed=seed, flavour=self.flavour)
        return o if side == "tc" else o._tensordict

    def other_td(self, seed):
        return Z.make(self.cls, seed=seed, flavour=self.flavour)._tensordict

    def tmp(self, side):
        self._n += 1
        d = os.path.join(self.scratch, f"{side}{self._n}")
        return d

    def saved(self, side):
        d = self.tmp(side)
        o = Z.make(self.cls, seed=3)
        (o if side == "tc" else o._tensordict).memmap(d)
        return d

    def state_dict(self, side):
        o = Z.make(self.cls, seed=3)
        return (o if side == "tc" else o._tensordict).state_dict()


import operator as _op

SYNTAX = {
    "__iter__": lambda o: list(iter(o)),
    "__len__": lambda o: len(o),
    "__contains__": lambda o, k: k in o,
    "__getitem__": lambda o, i: o[i],
    "__abs__": lambda o: abs(o), "__neg__": lambda o: -o, "__invert__": lambda o: ~o,
    "__add__": _op.add, "__sub__": _op.sub, "__mul__": _op.mul, "__truediv__": _op.truediv, "__pow__": _op.pow,
    "__and__": _op.and_, "__or__": _op.or_, "__xor__": _op.xor,
    "__eq__": _op.eq, "__ne__": _op.ne, "__ge__": _op.ge, "__gt__": _op.gt, "__le__": _op.le, "__lt__": _op.lt,
    "__radd__": lambda o, x: x + o, "__rsub__": lambda o, x: x - o, "__rmul__": lambda o, x: x * o,
    "__rtruediv__": lambda o, x: x / o, "__rpow__": lambda o, x: x ** o,
    "__rand__": lambda o, x: x & o, "__ror__": lambda o, x: x | o, "__rxor__": lambda o, x: x ^ o,
}


def _setitem(o, i, v):
    o[i] = v


def _delitem(o, k):
    del o[k]
    return o


def _iadd(o, x):
    o += x
    return o


def _isub(o, x):
    o -= x
    return o


def _imul(o, x):
    o *= x
    return o


def _idiv(o, x):
    o /= x
    return o


def _ipow(o, x):
    o **= x
    return o


SYNTAX.update({"__setitem__": _setitem, "__delitem__": _delitem, "__iadd__": _iadd, "__isub__": _isub, "__imul__": _imul,
               "__itruediv__": _idiv, "__ipow__": _ipow, "__bool__": lambda o: bool(o)})


def invoke(obj, name, args, kwargs, is_op, on_class=False):
    """-> ('ok', value) | ('exc', exception).  Operators are exercised through python syntax (what a user
    writes); reflected operators with a same-structure left operand fall back to the explicit method."""
    try:
        with time_limit(20), warnings.catch_warnings():
            warnings.simplefilter("ignore")
            if is_op:
                if name in SYNTAX and not kwargs and not (name.startswith("__r") and args and not isinstance(args[0], (int, float))):
                    return "ok", SYNTAX[name](obj, *args)
                f = getattr(type(obj), name)      # operators are looked up on the type
                return "ok", f(obj, *args, **kwargs)
            target = type(obj) if on_class else obj
            attr = getattr(target, name)
            if not callable(attr) or isinstance(getattr(type(obj), name, None), property):
                if args or kwargs:
                    return "exc", TypeError("property called with arguments")
                return "ok", attr
            r = attr(*args, **kwargs)
            if hasattr(r, "__next__"):           # generators: materialise while both sides are untouched
                r = list(r)
            return "ok", r
    except TimeoutError:
        raise
    except Exception as e:  # noqa: BLE001
        return "exc", e


# --------------------------------------------------------------------------- descriptors for the model
def _keys(td):
    return [k for k in td.keys()]


def td_item_desc(x, tdB, kwB, i):
    if x is None:
        return None          # `sx` writes python None as the protocol word `none`
    if x is tdB:
        return "selftd"
    if isinstance(x, TensorDictBase):
        d = ["td", f"t{i}", _keys(x)]
        if kwB.get("out") is x:
            return ["out", d]
        return d
    return ["other", type(x).__name__]


def nt_desc(tc):
    return [[k, None if v is None else "v"] for k, v in tc._non_tensordict.items()]


def nt_sorted_desc(tc):
    return sorted([[k, "none" if v is None else "v"] for k, v in tc._non_tensordict.items()])


def tc_item_actual(y, tcA, i):
    if y is None:
        return "none"
    if y is tcA:
        return "self"
    if type(y) is type(tcA):
        return ["tc", type(tcA).__name__, "t_self" if y._tensordict is tcA._tensordict else f"t{i}", nt_sorted_desc(y)]
    if isinstance(y, TensorDictBase):
        if y is tcA._tensordict:
            return "rawselftd"
        return ["rawtd", f"t{i}"]
    return ["other", type(y).__name__]


def model_request(kind, name, clsname, fields, tcA, tdB, r_td, kwB, clear_meta):
    selftd = ["td", "t_self", _keys(tdB)]
    if isinstance(r_td, tuple):
        res = ["tuple"] + [td_item_desc(x, tdB, kwB, i) for i, x in enumerate(r_td)]
    else:
        res = td_item_desc(r_td, tdB, kwB, 0)
    nt = nt_desc(tcA)
    if kind in ("wrap", "copy", "nowrap"):
        return sx("c15.wrapcall", kind == "nowrap", clsname, sorted(fields), selftd, nt, res)
    if kind == "fallback":
        return sx("c15.fallback", name.endswith("_"), name in clear_meta, clsname, sorted(fields), selftd, nt, res)
    return None


def actual_outcome(st, r_tc, tcA):
    if st == "exc":
        return ["err", err_class(r_tc)]
    if isinstance(r_tc, tuple):
        return ["ok", ["tuple"] + [tc_item_actual(y, tcA, i) for i, y in enumerate(r_tc)]]
    return ["ok", tc_item_actual(r_tc, tcA, 0)]


# --------------------------------------------------------------------------- the oracle (property text)
def fields_readable(tc):
    """attribute access is key access, on an instance: every declared field reads as the entry of the
    underlying tensordict (non-tensor unwrapped) or the `None` placeholder"""
    bad = []
    for f in type(tc).__expected_keys__:
        try:
            v = getattr(tc, f)
        except Exception as e:  # noqa: BLE001
            v = ("raises", err_class(e))
        td = tc._tensordict
        if f in td.keys():
            e = td.get(f)
            exp = e.data if isinstance(e, NonTensorData) else e.tolist() if isinstance(e, NonTensorStack) else e
        elif f in tc._non_tensordict:
            exp = tc._non_tensordict[f]
        elif f in tc.__dict__:
            exp = tc.__dict__[f]
        else:
            exp = ("raises", "key")
        if canon(v) != canon(exp):
            bad.append(f)
    return bad + exports_agree(tc)


def export_canon(v):
    """canonical form of a field value as an EXPORT shows it: non-tensor entries as their payloads, nested
    collections as the dict they export to"""
    if isinstance(v, NonTensorData):
        return canon(v.data)
    if isinstance(v, NonTensorStack):
        return canon(v.tolist())
    if is_tensorclass(v) and not isinstance(v, type) or isinstance(v, TensorDictBase):
        try:
            d = v.to_dict()
        except Exception as e:  # noqa: BLE001
            return ["to_dict-raises", err_class(e)]
        return ["dict", sorted(([str(k), export_canon(x)] for k, x in d.items()), key=lambda kv: kv[0])]
    if isinstance(v, dict):
        return ["dict", sorted(([str(k), export_canon(x)] for k, x in v.items()), key=lambda kv: kv[0])]
    return canon(v)


def exports_agree(tc):
    """the property on ONE object, nothing in between: what `to_dict()`, `to_tensordict()` and `items()` of a
    tensorclass show for a declared field is what reading the attribute shows.  -> list of disagreements"""
    fields = sorted(type(tc).__expected_keys__)
    attrs = {}
    for f in fields:
        try:
            attrs[f] = getattr(tc, f)
        except Exception:  # noqa: BLE001  (unreadable fields are reported by fields_readable itself)
            pass
    bad = []
    with warnings.catch_warnings():
        warnings.simplefilter("ignore")
        try:
            d = tc.to_dict()
        except Exception as e:  # noqa: BLE001
            d = None
            bad.append(f"to_dict():raises:{err_class(e)}")
        if d is not None:
            for f, v in attrs.items():
                if f not in d:
                    bad.append(f"to_dict():{f}:missing")
                elif export_canon(v) != export_canon(d[f]):
                    bad.append(f"to_dict():{f}")
        try:
            t = tc.to_tensordict(retain_none=True)
        except Exception as e:  # noqa: BLE001
            t = None
            bad.append(f"to_tensordict():raises:{err_class(e)}")
        if t is not None:
            for f, v in attrs.items():
                got = t.get(f, None)
                if export_canon(v) != export_canon(got):
                    bad.append(f"to_tensordict():{f}")
        try:
            it = dict(tc.items())
        except Exception as e:  # noqa: BLE001
            it = None
            bad.append(f"items():raises:{err_class(e)}")
        if it is not None:
            for f, v in attrs.items():
                if f in it:
                    if export_canon(v) != export_canon(it[f]):
                        bad.append(f"items():{f}")
                elif v is not None:
                    bad.append(f"items():{f}:missing")
    return bad


def pieces_independent(pieces, receiver):
    """the tensorclasses of a tuple result are independent instances: none shares its None-placeholder dict
    with a sibling or with the receiver, and giving a value to a field that reads None on ONE piece leaves the
    field reading None on every other piece (attribute and to_dict()).  -> None or a short reason.
    Mutates the pieces: call it last."""
    tcs = [q for q in pieces if is_tensorclass(q) and not isinstance(q, (type, NonTensorData, NonTensorStack))]
    if len(tcs) < 2:
        return None
    shared = None
    for i, a in enumerate(tcs):
        if is_tensorclass(receiver) and a is not receiver and a.__dict__.get("_non_tensordict") is receiver.__dict__.get("_non_tensordict"):
            shared = shared or f"piece {i} shares its None-placeholder dict with the receiver"
        for j in range(i + 1, len(tcs)):
            if a is not tcs[j] and a.__dict__.get("_non_tensordict") is tcs[j].__dict__.get("_non_tensordict"):
                shared = shared or f"pieces {i} and {j} share one None-placeholder dict"
    why = _write_one_read_others(tcs)
    if why:
        return why + (f" ({shared})" if shared else "")
    return shared


def _write_one_read_others(tcs):
    first = tcs[0]
    fields = sorted(type(first).__expected_keys__)

    def reads_none(q, f):
        try:
            return getattr(q, f) is None
        except Exception:  # noqa: BLE001
            return False
    for f in fields:
        if not all(type(q) is type(first) and reads_none(q, f) for q in tcs):
            continue
        try:
            setattr(first, f, torch.zeros(tuple(first.batch_size)))
        except Exception:  # noqa: BLE001  (frozen / locked pieces: nothing to write)
            return None
        if reads_none(first, f):
            return None
        for j, q in enumerate(tcs[1:], 1):
            if q is first or q._tensordict is first._tensordict:
                continue
            try:
                v = getattr(q, f)
            except Exception as e:  # noqa: BLE001
                return f"after writing field {f} of piece 0, reading it on piece {j} raises {type(e).__name__}"
            if v is not None:
                return f"after writing field {f} of piece 0, piece {j} no longer reads None"
            try:
                d = q.to_dict()
            except Exception as e:  # noqa: BLE001
                return f"after writing field {f} of piece 0, to_dict() of piece {j} raises {type(e).__name__}"
            if f not in d or d[f] is not None:
                return f"after writing field {f} of piece 0, to_dict() of piece {j} no longer reports {f}=None"
        return None
    return None


def field_view(tc):
    """what a user sees of a tensorclass: its batch size and every declared field read as an attribute"""
    if not is_tensorclass(tc) or isinstance(tc, type):
        return {"$class": type(tc).__name__, "$canon": canon(tc)}
    out = {"$batch": list(tc.batch_size), "$class": type(tc).__name__}
    for f in sorted(type(tc).__expected_keys__):
        try:
            out[f] = canon(getattr(tc, f))
        except Exception as e:  # noqa: BLE001
            out[f] = ["raises", err_class(e)]
    return out


def unwrap(y):
    return y._tensordict if is_tensorclass(y) and not isinstance(y, (type, NonTensorData)) else y


def same_result(name, r_tc, r_td, tcA, tdB, fields, values=True, top=True):
    """-> None if the property holds for this pair, else a short reason"""
    cls = type(tcA)
    if isinstance(r_td, (NonTensorData, NonTensorStack)) or isinstance(r_tc, (NonTensorData, NonTensorStack)):
        # a non-tensor entry is a value (the payloads), not a tensordict result to be re-wrapped
        return None if canon(r_tc, values=values) == canon(r_td, values=values) else "non-tensor entry differs"
    if r_td is tdB:
        # the receiver itself: the tensorclass must come back (the same object, or the same class around the same tensordict)
        if r_tc is tcA or (type(r_tc) is cls and r_tc._tensordict is tcA._tensordict):
            return None
        return f"tensordict returned itself, tensorclass returned {type(r_tc).__name__}"
    if isinstance(r_td, TensorDictBase):
        matching = set(r_td.keys()) <= set(fields)
        if matching:
            if type(r_tc) is not cls:
                return f"result of matching structure (keys {sorted(r_td.keys())}) came back as {type(r_tc).__name__}, not {cls.__name__}"
            if canon(r_tc._tensordict, values=values) != canon(r_td, values=values):
                return "re-wrapped result differs from the tensordict result"
            bad = fields_readable(r_tc)
            if bad:
                return f"fields {bad} of the result do not read as the underlying entries"
            return None
        if not (isinstance(r_tc, TensorDictBase) or is_tensorclass(r_tc)):
            return f"tensordict result (non-matching keys) came back as {type(r_tc).__name__}"
        return None if canon(unwrap(r_tc), values=values) == canon(r_td, values=values) else "result differs from the tensordict result"
    if isinstance(r_td, (tuple, list)) and not isinstance(r_td, torch.Size):
        if not isinstance(r_tc, (tuple, list)) or len(r_tc) != len(r_td):
            return f"sequence result came back as {type(r_tc).__name__} of different length"
        for a, b in zip(r_tc, r_td):
            why = same_result(name, a, b, tcA, tdB, fields, values, top=False)
            if why:
                return why
        return None
    return None if canon(r_tc, values=values) == canon(r_td, values=values) else f"value differs ({type(r_tc).__name__} vs {type(r_td).__name__})"


# results the tensorclass presents differently ON PURPOSE (documented in the report): normalise before comparing
def _unwrap_nt(v):
    if isinstance(v, NonTensorData):
        return v.data
    if isinstance(v, NonTensorStack):
        return v.tolist()
    return v


def _drop_none_nt(td):
    """a copy of `td` without entries that are NonTensorData(None) (the tensorclass `None` placeholders)"""
    out = td.copy()
    for k in list(out.keys()):
        v = out.get(k)
        if isinstance(v, NonTensorData) and v.data is None:
            out.del_(k)
    return out


def _erase_classes(c):
    if isinstance(c, list):
        if c and c[0] == "TC":
            return _erase_classes(c[2])
        return [_erase_classes(x) for x in c]
    return c


def normalise(name, r_tc, r_td):
    if name == "__exit__":
        # python only looks at the truthiness of what __exit__ returns; compare the side effects on the receiver only
        return None, None
    if name == "to_dict" and isinstance(r_tc, dict):
        # the tensorclass adds its `None` placeholders (fields the tensordict cannot hold)
        return {k: v for k, v in r_tc.items() if v is not None}, r_td
    if name == "state_dict" and isinstance(r_tc, dict) and "_tensordict" in r_tc:
        return r_tc["_tensordict"], r_td
    if name in ("get", "get_at", "pop", "setdefault", "get_non_tensor"):
        # typed fields: a non-tensor field is presented as the python value, not as its NonTensorData carrier
        return _unwrap_nt(r_tc), _unwrap_nt(r_td)
    if name in ("from_dict", "from_dict_instance") and is_tensorclass(r_tc) and not isinstance(r_tc, type) and isinstance(r_td, TensorDictBase):
        # typed constructors: nested dicts become the annotated / current member class and class defaults are applied;
        # compare the entries the tensordict constructor produced, with classes erased
        proj = r_tc._tensordict.select(*[k for k in r_td.keys() if k in r_tc._tensordict.keys()])
        return ("untyped", _erase_classes(canon(proj))), ("untyped", _erase_classes(canon(r_td)))
    if name == "to_tensordict" and isinstance(r_tc, TensorDictBase):
        # its contract is to produce a plain TensorDict (never re-wrapped); `None` fields become NonTensorData(None)
        return ("plain", canon(_drop_none_nt(r_tc))), ("plain", canon(r_td))
    return r_tc, r_td
