"""C16 — extended domain (oracle only; nothing here stands in for a theorem): tensor / mask indices, write
histories, cat / lazy_stack, the C02 shape ops on holders, update / clone / to_dict / pickle / memmap round trips.
Ground truth: a numpy object array of payload ids, moved by numpy / a torch index proxy."""
from __future__ import annotations

import copy
import os
import pickle
import shutil
import tempfile
import warnings

import numpy as np
import torch
from tensordict import LazyStackedTensorDict, TensorDict
from tensordict.tensorclass import NonTensorData, NonTensorStack

import c16_nt as N
from c16_streams import gen_case, has_stack, impl_err, nested
from common import BUILD, err_class, time_limit

warnings.filterwarnings("ignore")


def content(td, key="a"):
    e = td.get(key)
    return N.tolist_ids(e)


def check(run, site, case, fn, want, fp):
    """run `fn()` -> nested id list; compare with `want` (nested list)"""
    try:
        with time_limit(15):
            got = fn()
    except TimeoutError:
        raise
    except Exception as ex:  # noqa: BLE001
        run.oracle_fail(site, case, f"raises {type(ex).__name__}: {str(ex)[:120]}", fingerprint=f"{fp}:raises:{err_class(ex)}")
        return False
    if got != want:
        run.oracle_fail(site, case, f"content {str(got)[:160]} expected {str(want)[:160]}", fingerprint=f"{fp}:content")
        return False
    run.oracle_ok(site)
    return True


# --------------------------------------------------------------------------- reads with tensor / mask indices
def advanced_reads(run):
    n = 1200 if run.tier == "quick" else 8000
    for _ in range(n):
        shape, a, spec = gen_case(run)
        if not shape:
            continue
        rank = len(shape)
        d = run.rng.randrange(rank)
        kind = run.rng.choice(["tensor1d", "tensor2d", "mask", "range", "tensor0d"])
        size = shape[d]
        if kind == "tensor1d":
            item = torch.tensor([run.rng.randrange(size) for _ in range(run.rng.randint(1, 3))])
        elif kind == "tensor2d":
            item = torch.tensor([[run.rng.randrange(size) for _ in range(2)] for _ in range(2)])
        elif kind == "tensor0d":
            item = torch.tensor(run.rng.randrange(size))
        elif kind == "range":
            item = range(0, size, run.rng.choice([1, 2]))
        else:
            item = torch.tensor([run.rng.random() < 0.6 for _ in range(size)])
            if not item.any():
                item[0] = True
        idx = tuple([slice(None)] * d + [item])
        td = N.holder(spec, shape, N.pick_device(run.rng))
        case = {"spec": str(spec), "index": f"dim {d}: {kind} {item.tolist() if hasattr(item, 'tolist') else list(item)}"}
        run.case(("adv", str(spec), case["index"]), nontrivial=has_stack(spec))
        pidx = tuple(torch.tensor(list(i)) if isinstance(i, range) else i for i in idx)
        pos = N.positions(shape, pidx)
        want = nested(a.reshape(-1)[pos.numpy()]) if pos.ndim else a.reshape(-1)[int(pos)]
        rep = "stack" if has_stack(spec) else "shared"
        check(run, "getitem.advanced", case, lambda: content(td[idx]), want, f"adv:{kind}:{rep}")


# --------------------------------------------------------------------------- write histories
def gen_write_index(rng, shape):
    """ints / slices / one duplicate-free list / one mask; no None (writes through None are not in the grammar)"""
    rank = len(shape)
    items = []
    adv_used = False
    for k in range(rng.randint(0, rank)):
        n = shape[k]
        r = rng.random()
        if r < 0.35:
            items.append(rng.randrange(-n, n))
        elif r < 0.75 or adv_used:
            a = rng.choice([None, 0, 1])
            b = rng.choice([None, n, n - 1 if n > 1 else n])
            st = rng.choice([None, 1, 2])
            if len(range(*slice(a, b, st).indices(n))) == 0:
                a, b = None, None
            items.append(slice(a, b, st))
        elif r < 0.9:
            adv_used = True
            items.append(rng.sample(range(n), rng.randint(1, n)))
        else:
            adv_used = True
            m = [rng.random() < 0.6 for _ in range(n)]
            if not any(m):
                m[0] = True
            items.append(torch.tensor(m))
    if (rng.random() < 0.2 and len(items) < rank) or not items:
        items.insert(rng.randint(0, len(items)), Ellipsis)        # `td[()] = v` is not a supported spelling: use `...`
    return tuple(items)


def writes(run):
    n = 800 if run.tier == "quick" else 6000
    for _ in range(n):
        shape = N.gen_shape(run.rng, 3)
        if not shape:
            continue
        constant_start = run.rng.random() < 0.6
        a = N.gen_array(run.rng, shape, constant=constant_start)
        spec = N.represent(a, run.rng, p_shared=0.9)
        td = N.holder(spec, shape, N.pick_device(run.rng))
        history = []
        ok = True
        for step in range(run.rng.randint(1, 4)):
            idx = gen_write_index(run.rng, shape)
            try:
                pos = N.positions(shape, tuple(torch.tensor(i) if isinstance(i, list) else i for i in idx))
            except Exception:  # noqa: BLE001
                break
            vshape = list(pos.shape)
            if pos.numel() == 0:
                continue                                  # an empty write is a no-op (empty reads are covered by getitem)
            mode = run.rng.random()
            if mode < 0.3:
                v = N.gen_array(run.rng, vshape, constant=True)                     # one new object everywhere
            elif mode < 0.5 and step > 0:
                v = np.empty(vshape, dtype=object)
                v[...] = a.reshape(-1)[0]                                            # write the original value back
            else:
                v = N.gen_array(run.rng, vshape)
            vspec = N.represent(v, run.rng, p_shared=0.7)
            tv = N.holder(vspec, vshape, N.pick_device(run.rng))
            history.append({"index": repr(idx), "value": str(vspec)})
            case = {"start": str(spec), "history": list(history)}
            flat = a.reshape(-1).copy()
            flat[pos.numpy().reshape(-1)] = v.reshape(-1)
            a = flat.reshape(shape)
            run.case(("write", str(spec), str(history)), nontrivial=True)
            kinds = "+".join(sorted({"int" if isinstance(i, int) else "slice" if isinstance(i, slice) else "list" if isinstance(i, list)
                                    else "ell" if i is Ellipsis else "mask" for i in idx})) or "empty"
            run.count("write.index", kinds)

            def do(td=td, idx=idx, tv=tv):
                td[idx] = tv
                return content(td)
            ok = check(run, "setitem", case, do, nested(a), f"write:{kinds}:{'shared' if spec[0] == 'sh' and step == 0 else 'stack'}")
            if not ok:
                break
            # the tensor leaf next to it must have been written at the same positions
        if ok:
            # representation half: after the history, is the entry ONE shared object iff all positions agree?
            flat = list(a.reshape(-1))
            all_eq = all(x == flat[0] for x in flat)
            e = td.get("a")
            run.count("write.final_repr", f"all_equal={all_eq}:{type(e).__name__}")
            if all_eq and not isinstance(e, NonTensorData) and history:
                run.oracle_fail("setitem.shared_again", {"start": str(spec), "history": history},
                                "all positions hold the same object again but the entry stays a NonTensorStack (td['a'] returns a nested list, not the object)",
                                fingerprint="write:not-collapsed")
            elif all_eq:
                run.oracle_ok("setitem.shared_again")


# --------------------------------------------------------------------------- combine / reshape / copy / serialise
def mixed_rows(rng, shape):
    """an object array of rank >= 2: scalar payloads, except some full rows along the last dim, which hold one sequence kind"""
    scalars = ["o0", "o1", "o2", "o6", "o8"] + (["o5"] if rng.random() < 0.2 else [])
    a = np.empty(shape, dtype=object)
    flat = a.reshape(-1)
    for i in range(flat.size):
        flat[i] = rng.choice(scalars)
    a = flat.reshape(shape)
    rows = list(np.ndindex(*shape[:-1]))
    later = rows[1:] or rows
    chosen = rng.sample(later, rng.randint(1, len(later)))
    if rng.random() < 0.15:
        chosen.append(rows[0])
    kind = rng.choice(["o3", "o3", "o7", "o4"])              # list (twice as often), tuple, dict
    for r in chosen:
        for j in range(shape[-1]):
            a[r + (j,)] = kind
    return a


COPY_OPS = {"clone", "clone(False)", "copy", "pickle", "share+clone", "share+to_tensordict", "clone(entry)", "clone(False)(entry)", "copy(entry)"}


def combine_and_shape(run):
    scratch = tempfile.mkdtemp(prefix="c16_", dir=str(BUILD))
    n = 1500 if run.tier == "quick" else 10000
    try:
        for it in range(n):
            shape, a, spec = gen_case(run)
            rank = len(shape)
            rep = "stack" if has_stack(spec) else "shared"
            dev = N.pick_device(run.rng)          # one device per case: tensordicts of different devices cannot be combined
            td = N.holder(spec, shape, dev)
            ops = [
                ("clone", lambda t: t.clone(), lambda x: x),
                ("clone(False)", lambda t: t.clone(False), lambda x: x),
                ("copy", lambda t: t.copy(), lambda x: x),
                ("pickle", lambda t: pickle.loads(pickle.dumps(t)), lambda x: x),
                # copies of a tensordict whose non-tensor payloads were moved to shared memory must carry the values
                ("share+clone", lambda t: t.share_memory_().clone(), lambda x: x),
                ("share+to_tensordict", lambda t: t.share_memory_().to_tensordict(), lambda x: x),
                ("to_dict", None, None),
                ("update", None, None),
                ("update_", None, None),
                ("memmap", None, None),
            ]
            ops += [
                # the entry's own copies
                ("clone(entry)", lambda t: t.get("a").clone(), lambda x: x),
                ("clone(False)(entry)", lambda t: t.get("a").clone(False), lambda x: x),
                ("copy(entry)", lambda t: t.get("a").copy(), lambda x: x),
            ]
            if rank >= 2 and isinstance(td.get("a"), NonTensorData):
                # a shared entry follows the batch size its holder is given (`_apply_nest(batch_size=...)` -> `NonTensorData.empty`)
                k = run.rng.randrange(1, rank)
                ops += [("apply(batch_size)", lambda t, k=k: t.apply(lambda x: x, batch_size=shape[:k]),
                         lambda x, k=k: x[tuple([slice(None)] * k + [0] * (rank - k))])] * 3
            if rank:
                numel = int(np.prod(shape))
                d = run.rng.randrange(rank)
                ops += [
                    ("reshape", lambda t: t.reshape(numel), lambda x: x.reshape(numel)),
                    ("view", lambda t: t.view(numel), lambda x: x.reshape(numel)),
                    # (flatten of a rank-1 batch is rejected by tensordict for every entry kind: C02's subject, not exercised here)
                    ("flatten", lambda t: t.flatten(0, rank - 1) if rank > 1 else t.reshape(numel), lambda x: x.reshape(numel)),
                    ("unflatten", lambda t, d=d: t.unflatten(d, (shape[d], 1)), lambda x, d=d: np.expand_dims(x, d + 1)),
                    ("expand", lambda t: t.expand(2, *shape), lambda x: np.broadcast_to(x, [2] + shape)),
                    ("repeat", lambda t, d=d: t.repeat(*[2 if k == d else 1 for k in range(rank)]), lambda x, d=d: np.concatenate([x, x], axis=d)),
                    ("repeat_interleave", lambda t, d=d: t.repeat_interleave(2, dim=d), lambda x, d=d: np.repeat(x, 2, axis=d)),
                    ("split", lambda t, d=d: t.split(1, d)[-1], lambda x, d=d: np.take(x, [shape[d] - 1], axis=d)),
                    ("chunk", lambda t, d=d: t.chunk(shape[d], d)[0], lambda x, d=d: np.take(x, [0], axis=d)),
                    # (transpose(0, 0) is rejected by lazy stacks: C02/C08's subject; use two different dims when there are two)
                    ("transpose", lambda t, d=d: t.transpose(0, d) if d else t.transpose(0, rank - 1) if rank > 1 else t.permute(0),
                     lambda x, d=d: np.swapaxes(x, 0, d if d else rank - 1)),
                    ("contiguous", lambda t: t.contiguous(), lambda x: x),
                    ("masked_select", None, None),
                    ("gather", None, None),
                    ("cat", None, None), ("lazy_stack", None, None), ("stack+unbind", None, None),
                ]
            if rank >= 2:
                ops += [("memmap-mixed", None, None)] * 2
            if rank >= 2:
                # a reshape that is neither a flatten nor an unflatten of consecutive dims: the batch dims reversed
                # (only when that is a different shape), e.g. [2, 3] -> [3, 2]
                rev = list(reversed(shape))
                if rev != shape:
                    ops += [("reshape-nd", lambda t, rev=rev: t.reshape(*rev), lambda x, rev=rev: x.reshape(rev))] * 2
            name, f, g = run.rng.choice(ops)
            case = {"op": name, "spec": str(spec)}
            run.case(("ext", name, str(spec)), nontrivial=has_stack(spec))
            run.count("extended.op", name)
            fp = f"{name}:{rep}"
            if f is not None:
                is_copy = name in COPY_OPS

                def do(f=f, td=td, is_copy=is_copy):
                    r = f(td)
                    e = r if isinstance(r, (NonTensorData, NonTensorStack)) else r.get("a")
                    if is_copy:
                        # a copy keeps what the entry is besides its objects: batch size and device
                        e0 = td.get("a")
                        if (e.device, tuple(e.batch_size)) != (e0.device, tuple(e0.batch_size)):
                            raise AssertionError(f"the copy has device {e.device} / batch size {tuple(e.batch_size)}, the original {e0.device} / {tuple(e0.batch_size)}")
                    return N.tolist_ids(e)
                check(run, "copy" if is_copy else "shape-op", case, do, nested(g(a)), fp)
            elif name == "to_dict":
                def todict():
                    v = td.to_dict()["a"]

                    def walk(x, depth):
                        return N.id_of(x) if depth == 0 else [walk(y, depth - 1) for y in x]
                    # a shared entry converts to the bare payload, a stack to the nested list
                    return walk(v, rank) if isinstance(td.get("a"), NonTensorStack) else N.id_of(v)
                want = nested(a) if isinstance(td.get("a"), NonTensorStack) else a.reshape(-1)[0] if a.size else None
                check(run, "to_dict", case, todict, want, fp)
            elif name == "update":
                shape2, a2, spec2 = shape, N.gen_array(run.rng, shape), None
                spec2 = N.represent(a2, run.rng)
                other = N.holder(spec2, shape, dev)
                case["other"] = str(spec2)
                check(run, "update", case, lambda: content(td.update(other)), nested(a2), f"update:{rep}->{'stack' if has_stack(spec2) else 'shared'}")
            elif name == "update_":
                # the in-place spelling: the destination must end up with the content of the source as well
                a2 = N.gen_array(run.rng, shape)
                spec2 = N.represent(a2, run.rng)
                other = N.holder(spec2, shape, dev)
                case["other"] = str(spec2)
                check(run, "update", case, lambda: content(td.update_(other)), nested(a2), f"update_:{rep}->{'stack' if has_stack(spec2) else 'shared'}")
            elif name == "memmap":
                d = os.path.join(scratch, f"m{it}")

                def mm():
                    td.memmap(d)
                    return content(TensorDict.load_memmap(d))
                check(run, "memmap", case, mm, nested(a), fp + (":sequence-payload" if {"o7", "o3"} & set(a.reshape(-1)) else ""))
            elif name == "memmap-mixed":
                # MIXED payload kinds within one entry: scalars in most rows, one or more full rows (last batch dim) of equal-length
                # lists / tuples / dicts - usually not the first row, so the first payload is a scalar.  A row of equal-length lists
                # looks like one more batch level in the nested list written to disk.
                a2 = mixed_rows(run.rng, shape)
                spec2 = N.represent(a2, run.rng, p_shared=0.4)
                case = {"op": name, "spec": str(spec2)}
                d = os.path.join(scratch, f"mm{it}")
                how = run.rng.choice(["holder", "entry"])
                case["saved"] = how

                def mmx(spec2=spec2, d=d, how=how):
                    if how == "holder":
                        N.holder(spec2, shape, dev).memmap(d)
                        return content(TensorDict.load_memmap(d))
                    N.build(spec2).memmap(d)
                    back = TensorDict.load_memmap(d)
                    if spec2[0] == "sh" and tuple(back.batch_size) == () and N.id_of(back.data) == spec2[1]:
                        return "batch-size-lost"
                    return N.tolist_ids(back)
                if how == "entry" and spec2[0] == "sh":
                    # a BARE shared entry saved on its own (not inside a tensordict)
                    try:
                        with time_limit(15):
                            got = mmx()
                    except TimeoutError:
                        raise
                    except Exception as ex:  # noqa: BLE001
                        got = f"raises {type(ex).__name__}: {str(ex)[:100]}"
                    if got == nested(a2):
                        run.oracle_ok("memmap")
                    elif got == "batch-size-lost":
                        run.oracle_fail("memmap", case, f"the object comes back, the batch size {shape} does not (loaded batch size is ())", fingerprint="memmap-bare-shared-entry:batch-size-lost")
                    else:
                        run.oracle_fail("memmap", case, f"content {str(got)[:160]} expected {str(nested(a2))[:160]}", fingerprint="memmap-bare-shared-entry:content")
                else:
                    check(run, "memmap", case, mmx, nested(a2), f"memmap-mixed:{how}")
            elif name == "masked_select":
                m = torch.tensor(np.array([run.rng.random() < 0.6 for _ in range(int(np.prod(shape)))]).reshape(shape))
                if not m.any():
                    m.view(-1)[0] = True
                check(run, "shape-op", case, lambda: content(td.masked_select(m)), list(a[m.numpy()]), fp)
            elif name == "gather":
                d = run.rng.randrange(rank)
                gi = torch.tensor(np.array([run.rng.randrange(shape[d]) for _ in range(int(np.prod(shape)))]).reshape(shape))
                check(run, "shape-op", case, lambda: content(td.gather(d, gi)), nested(np.take_along_axis(a, gi.numpy(), axis=d)), fp)
            elif name in ("cat", "lazy_stack", "stack+unbind"):
                a2 = N.gen_array(run.rng, shape, constant=True if run.rng.random() < 0.5 else None)
                spec2 = N.represent(a2, run.rng)
                other = N.holder(spec2, shape, dev)
                d = run.rng.randrange(rank)
                ds = N.spell(run.rng, d, rank)
                dst = N.spell(run.rng, d, rank + 1)
                case["other"], case["dim"] = str(spec2), ds
                fp2 = f"{name}:{rep}+{'stack' if has_stack(spec2) else 'shared'}"
                if name == "cat":
                    check(run, "cat", case, lambda: content(torch.cat([td, other], ds)), nested(np.concatenate([a, a2], axis=d)), fp2)
                elif name == "lazy_stack":
                    check(run, "lazy_stack", case, lambda: content(LazyStackedTensorDict.lazy_stack([td, other], dst)), nested(np.stack([a, a2], axis=d)), fp2)
                else:
                    check(run, "stack+unbind", case, lambda: content(torch.stack([td, other], dst).unbind(dst)[1]), nested(a2), fp2)
    finally:
        shutil.rmtree(scratch, ignore_errors=True)


# --------------------------------------------------------------------------- copies own their positions
COPIES = [
    ("clone", lambda t: t.clone()),
    ("to_tensordict", lambda t: t.to_tensordict()),
    ("apply-clone", lambda t: t.apply(lambda x: x.clone())),
    ("deepcopy", lambda t: copy.deepcopy(t)),
    ("pickle", lambda t: pickle.loads(pickle.dumps(t))),
    ("select-clone", lambda t: t.select("a", "x").clone()),
    ("index-all-clone", lambda t: t[...].clone()),
]


def copy_independence(run):
    """a (deep) copy owns its positions: an indexed write into the copy changes exactly those positions of the copy and
    nothing of the original, and the other way round.  Device-less and device="cpu" holders, every representation."""
    n = 500 if run.tier == "quick" else 4000
    for _ in range(n):
        shape = N.gen_shape(run.rng, 3)
        if not shape:
            continue
        a = N.gen_array(run.rng, shape, constant=True if run.rng.random() < 0.3 else None)
        spec = N.represent(a, run.rng, p_shared=0.5)
        dev = N.pick_device(run.rng)
        td = N.holder(spec, shape, dev)
        cname, cp = run.rng.choice(COPIES)
        direction = run.rng.choice(["write-copy", "write-original"])
        if run.rng.random() < 0.5:
            idx = tuple(run.rng.randrange(k) for k in shape)
        else:
            idx = gen_write_index(run.rng, shape)
        try:
            pos = N.positions(shape, tuple(torch.tensor(i) if isinstance(i, list) else i for i in idx))
        except Exception:  # noqa: BLE001
            continue
        if pos.numel() == 0:
            continue
        vshape = list(pos.shape)
        used = set(a.reshape(-1))
        fresh_ids = [i for i in N.IDS if i not in used] or N.IDS
        v = np.empty(vshape, dtype=object)
        v[...] = run.rng.choice(fresh_ids)
        vspec = N.represent(v, run.rng, p_shared=0.7)
        case = {"copy": cname, "device": str(dev), "spec": str(spec), "direction": direction, "index": repr(idx), "value": str(vspec)}
        run.case(("copy-independence", cname, str(dev), str(spec), direction, repr(idx)), nontrivial=has_stack(spec))
        run.count("copy_independence.op", f"{cname}:{'device' if dev else 'no-device'}")
        fp = f"independence:{cname}:{'device' if dev else 'no-device'}:{'stack' if has_stack(spec) else 'shared'}"
        try:
            with time_limit(15):
                dup = cp(td)
                target, other = (dup, td) if direction == "write-copy" else (td, dup)
                target[idx] = N.holder(vspec, vshape, N.pick_device(run.rng))
                got_target, got_other = content(target), content(other)
        except TimeoutError:
            raise
        except Exception as ex:  # noqa: BLE001
            run.oracle_fail("copy-independence", case, f"raises {type(ex).__name__}: {str(ex)[:120]}", fingerprint=f"{fp}:raises:{err_class(ex)}")
            continue
        flat = a.reshape(-1).copy()
        flat[pos.numpy().reshape(-1)] = v.reshape(-1)
        want_target, want_other = nested(flat.reshape(shape)), nested(a)
        if got_other != want_other:
            who = "the original" if direction == "write-copy" else "the copy"
            run.oracle_fail("copy-independence", case, f"the write into {'the copy' if direction == 'write-copy' else 'the original'} changed {who}: "
                            f"{str(got_other)[:120]} expected {str(want_other)[:120]}", fingerprint=f"{fp}:leak")
        elif got_target != want_target:
            run.oracle_fail("copy-independence", case, f"written side reads {str(got_target)[:120]} expected {str(want_target)[:120]}", fingerprint=f"{fp}:content")
        else:
            run.oracle_ok("copy-independence")


# --------------------------------------------------------------------------- writes into memory-mapped / shared holders
def _flat(x):
    return [y for e in x for y in _flat(e)] if isinstance(x, list) else [x]


def storage_writes(run):
    """indexed assignment into a holder that was memory-mapped (`memmap_`) or moved to shared memory (`share_memory_`).
    Such a holder may REFUSE the write of a new object (explicit error: counted).  What it may not do is accept it and
    drop it (the entry reads as before), write other positions, or - memory-mapped - leave the copy on disk behind."""
    n = 160 if run.tier == "quick" else 1500
    for _ in range(n):
        shape = N.gen_shape(run.rng, 3)
        if not shape:
            continue
        a = N.gen_array(run.rng, shape, constant=True if run.rng.random() < 0.3 else None)
        spec = N.represent(a, run.rng, p_shared=0.5)
        kind = run.rng.choice(["memmap", "shared"])
        if run.rng.random() < 0.5:
            idx = tuple(run.rng.randrange(k) for k in shape)
        else:
            idx = gen_write_index(run.rng, shape)
        try:
            pos = N.positions(shape, tuple(torch.tensor(i) if isinstance(i, list) else i for i in idx))
        except Exception:  # noqa: BLE001
            continue
        if pos.numel() == 0:
            continue
        vshape = list(pos.shape)
        used = set(a.reshape(-1))
        fresh_ids = [i for i in N.IDS if i not in used] or N.IDS
        v = np.empty(vshape, dtype=object)
        v[...] = run.rng.choice(fresh_ids)
        vspec = N.represent(v, run.rng, p_shared=0.7)
        case = {"holder": kind, "spec": str(spec), "index": repr(idx), "value": str(vspec)}
        run.case(("storage-write", kind, str(spec), repr(idx)), nontrivial=has_stack(spec))
        rep = "stack" if has_stack(spec) else "shared"
        fp = f"storage-write:{kind}:{rep}"
        d = tempfile.mkdtemp(dir=BUILD) if kind == "memmap" else None
        try:
            try:
                with time_limit(20):
                    td = N.holder(spec, shape)
                    if kind == "memmap":
                        td.memmap_(d)
                    else:
                        td.share_memory_()
                    before = content(td)
                    td[idx] = N.holder(vspec, vshape)
                    got = content(td)
                    disk = content(TensorDict.load_memmap(d)) if kind == "memmap" else None
            except TimeoutError:
                raise
            except Exception as ex:  # noqa: BLE001
                run.count("storage_write.outcome", f"{kind}:{rep}:refused:{err_class(ex)}")
                # a refused write must leave the entry as it was
                try:
                    after = content(td)
                except Exception as ex2:  # noqa: BLE001
                    after = f"unreadable ({type(ex2).__name__})"
                if after != nested(a):
                    run.oracle_fail("storage-write", case, f"the write was refused ({type(ex).__name__}: {str(ex)[:60]}) and the entry changed all the same: "
                                    f"{str(after)[:100]} was {str(nested(a))[:100]}", fingerprint=f"{fp}:refused-modified")
                else:
                    run.oracle_ok("storage-write.refused-unchanged")
                continue
            flat = a.reshape(-1).copy()
            flat[pos.numpy().reshape(-1)] = v.reshape(-1)
            want = nested(flat.reshape(shape))
            if got == want and (disk is None or disk == want):
                run.count("storage_write.outcome", f"{kind}:{rep}:written")
                run.oracle_ok("storage-write")
            elif got == want:
                run.oracle_fail("storage-write", case, f"the holder reads the new objects, the copy on disk does not: {str(disk)[:120]} expected {str(want)[:120]}",
                                fingerprint=f"{fp}:disk-stale")
            elif got == before:
                run.oracle_fail("storage-write", case, f"the write was accepted (no error) and dropped: the entry still reads {str(got)[:120]}, expected {str(want)[:120]}",
                                fingerprint=f"{fp}:dropped")
            elif all(g == w or g == b for g, w, b in zip(_flat(got), _flat(want), _flat(before))):
                # every position holds either the new or the old object: part of the write was dropped, nothing wrong was written
                run.oracle_fail("storage-write", case, f"the write was accepted (no error) and partly dropped: {str(got)[:120]} expected {str(want)[:120]}",
                                fingerprint=f"{fp}:partly-dropped")
            elif kind == "shared" and all(g == w or g == b or g == "unknown" for g, w, b in zip(_flat(got), _flat(want), _flat(before))):
                # a position reads an object that is neither the old nor the new one (nor any object of the pool): the shared slot
                # of the old payload was refilled with the new payload's items (`_update_shared_nontensor` goes by the OLD type)
                run.oracle_fail("storage-write", case, f"the written positions read an object that is neither the old nor the new one: {str(got)[:120]} expected {str(want)[:120]}",
                                fingerprint=f"{fp}:coerced")
            else:
                run.oracle_fail("storage-write", case, f"content {str(got)[:120]} expected {str(want)[:120]}", fingerprint=f"{fp}:content")
        finally:
            if d:
                shutil.rmtree(d, ignore_errors=True)
