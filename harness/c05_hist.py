"""C05 random event histories, replayed on the real library and on the Lean model (`c05.run`).

The harness owns one strong handle per object (`nodes[i]`); a `gc` event drops the handle and collects at once,
so liveness is deterministic.  Ids are allocation order on both sides.  After every event both sides print the
whole heap: per live object `is_locked`, the raw `_is_locked`, the live lock parents (as a sorted set of ids) and
the storage dict (key, kind, identity, value-version), and the outcome class of the call.
"""
from __future__ import annotations

import gc
import pickle
import shutil
import tempfile
import warnings
from pathlib import Path

import torch

from common import parse_sx, sx, time_limit

warnings.filterwarnings("ignore")

BS = []      # every node has an empty batch size, so that any collection (incl. a lazy stack) can be nested anywhere
KID_KEYS = ["k0", "k1", "k2"]
LEAF_KEYS = ["a", "b", "c"]


class Impl:
    """the real objects"""

    def __init__(self, scratch: Path):
        self.nodes = []          # id -> object | None
        self.leaf_no = {}        # id(tensor) -> obj number
        self.keep = []           # tensors kept alive so that id() is never recycled inside one history
        self.next_obj = 1000
        self.ctx = []
        self.converted = set()
        self.scratch = scratch
        self.nmm = 0
        self.bs = list(BS)
        self.stack_dim = 0
        self.allow_params = True   # TensorDictParams wrappers (a container of one tensordict) take part in the lock events
        self.pending = []          # events that must follow the one just generated
        self.allow_nts = True      # NonTensorData nodes and NonTensorStack (a lazy stack of them)

    # ---------------------------------------------------------------- helpers
    def new_leaf(self, version=0):
        t = torch.full(self.bs, float(version))
        no = self.next_obj
        self.next_obj += 1
        self.leaf_no[id(t)] = no
        self.keep.append(t)
        return t, no

    def node_id(self, obj):
        for i, n in enumerate(self.nodes):
            if n is obj or (n is not None and getattr(n, "__dict__", {}).get("_tensordict") is obj):
                return i           # (a tensorclass registers its wrapped TensorDict in the lock graph)
        return None

    _TC = {}

    @classmethod
    def tc_class(cls, fields):
        """a tensorclass with exactly these fields (created once per field set)"""
        from typing import Any
        from tensordict import tensorclass
        key = tuple(fields)       # field order = storage order = the order `values()` propagates the lock in
        if key not in cls._TC:
            base = type("C05H_" + "_".join(key), (), {"__annotations__": {f: Any for f in key}})
            cls._TC[key] = tensorclass(base)
        return cls._TC[key]

    def is_tc(self, n):
        return n is not None and not self.is_lazy(n) and "_tensordict" in getattr(n, "__dict__", {}) and not isinstance(getattr(n, "__dict__", {}).get("_tensordict"), dict)

    def is_params(self, n):
        return n is not None and "_param_td" in getattr(n, "__dict__", {})

    def is_nt(self, n):
        from tensordict import NonTensorData
        return isinstance(n, NonTensorData)

    def is_pinned(self, n):
        """`TensorDictParams(lock=True)`: the content is locked on its own and `unlock_()` of the wrapper is shallow"""
        return self.is_params(n) and bool(getattr(n, "_lock_content", False))

    def is_lazy(self, n):
        from tensordict import LazyStackedTensorDict
        return isinstance(n, LazyStackedTensorDict)

    def entries(self, n):
        """[(key, value)] of the private storage"""
        if self.is_lazy(n):
            return [(str(i), m) for i, m in enumerate(n.tensordicts)]
        if self.is_tc(n):
            return list(n._tensordict._tensordict.items())
        if self.is_params(n):
            return [("params!" if self.is_pinned(n) else "params", n._param_td)]       # the wrapper holds exactly one tensordict, its content
        return list(n._tensordict.items())

    def kids(self, n):
        from tensordict.base import _is_tensor_collection
        return [(k, v) for k, v in self.entries(n) if _is_tensor_collection(type(v))]

    def reach(self, i):
        out, todo = [], [self.nodes[i]]
        while todo:
            n = todo.pop()
            if any(n is x for x in out):
                continue
            out.append(n)
            todo += [v for _, v in self.kids(n)]
        return out

    def is_tree(self, i):
        seen, todo = [], [self.nodes[i]]
        while todo:
            n = todo.pop()
            if any(n is x for x in seen):
                return False
            seen.append(n)
            todo += [v for _, v in self.kids(n)]
        return True

    def held(self, i):
        tgt = self.nodes[i]
        for j, n in enumerate(self.nodes):
            if n is None or j == i:
                continue
            if any(v is tgt for _, v in self.kids(n)):
                return True
        return any(c is tgt for c in self.ctx)

    def refresh_leaves(self, i):
        """after a storage conversion the leaves are new objects: keep the model's numbering per (node, key)"""
        pass

    # ---------------------------------------------------------------- view
    def view(self):
        from tensordict.base import _is_tensor_collection
        rows = []
        for i, n in enumerate(self.nodes):
            if n is None:
                rows.append("dead")
                continue
            raw = n._tensordict._is_locked if self.is_tc(n) else n._is_locked
            flag = "t" if raw is True else "f" if raw is False else "n"
            ps = set()
            for w in (n._tensordict if self.is_tc(n) else n)._lock_parents_weakrefs:
                o = w()
                if o is None:
                    continue
                j = self.node_id(o)
                ps.add(j if j is not None else -1)
            ents = []
            if not self.is_lazy(n):
                for k, v in self.entries(n):
                    if _is_tensor_collection(type(v)):
                        j = self.node_id(v)
                        ents.append([k, "n", j if j is not None else -1])
                    else:
                        ents.append([k, "l", self.leaf_no.get(id(v), -1), int(v.flatten()[0].item()) if v.numel() else 0])
            else:
                for k, v in self.entries(n):
                    j = self.node_id(v)
                    ents.append([k, "n", j if j is not None else -1])
            ents.sort(key=lambda e: e[0])
            rows.append([i, "L" if n.is_locked else "U", flag, sorted(ps), ents])
        return rows

    # ---------------------------------------------------------------- events
    def run(self, ev):
        """execute one event; returns the outcome atom"""
        kind = ev[0]
        try:
            with time_limit(20):
                self._run(ev)
            return "ok"
        except TimeoutError as e:
            from common import Infra
            raise Infra(f"history event {ev[0]} exceeded the time limit ({e}): machine too loaded for a verdict")
        except KeyError:
            return "key"
        except RuntimeError as e:
            return "lock" if "lock" in str(e).lower() else "other:RuntimeError:" + str(e)[:120]
        except Skip:
            return "other"
        except Exception as e:  # noqa
            return "other:" + type(e).__name__ + ":" + str(e)[:120]

    def _run(self, ev):
        from tensordict import LazyStackedTensorDict, TensorDict
        kind = ev[0]
        if kind == "ctor":
            kids, leaves, lock = ev[1], ev[2], ev[3]
            d = {}
            for k, j in kids:
                d[k] = self.nodes[j]
            for k, no, ver in leaves:
                t = torch.full(self.bs, float(ver))
                self.leaf_no[id(t)] = no
                self.keep.append(t)
                d[k] = t
            # (a tensorclass is built per ordered field tuple; they are immortal and heavy for the collector: keep a small pool)
            if [k for k, _ in kids] in (["params"], ["params!"]) and not leaves:
                # `TensorDictParams(td, no_convert="skip")`: the wrapper over the very tensordict (ctor with the reserved key `params`);
                # `params!` = `lock=True`: the content, locked by the event just before, is locked on its own
                from tensordict.nn import TensorDictParams
                obj = TensorDictParams(self.nodes[kids[0][1]], no_convert="skip", lock=kids[0][0] == "params!")
                if lock:
                    obj.lock_()
                self.nodes.append(obj)
            elif len(ev) > 4 and ev[4] == "nt" and not d:
                # a NonTensorData: a tensorclass around an empty tensordict (no entry; the payload is not a binding)
                from tensordict import NonTensorData
                obj = NonTensorData(f"v{len(self.nodes)}", batch_size=self.bs, device="cpu")
                if lock:
                    obj.lock_()
                self.nodes.append(obj)
            elif len(ev) > 4 and ev[4] is True and d and (tuple(d) in self._TC or len(self._TC) < 24):
                obj = self.tc_class(list(d))(**d, batch_size=self.bs, device="cpu")
                if lock:
                    obj.lock_()
                self.nodes.append(obj)
            else:
                self.nodes.append(TensorDict(d, batch_size=self.bs, device="cpu", lock=lock))
        elif kind == "lazy":
            _, ms, lock = ev
            members = [self.nodes[j] for j in ms]
            if members and all(self.is_nt(m) for m in members):
                from tensordict import NonTensorStack
                self.nodes.append(NonTensorStack(*members, stack_dim=self.stack_dim))     # same lock code as any lazy stack
            else:
                self.nodes.append(LazyStackedTensorDict(*members, stack_dim=self.stack_dim))
        elif kind == "lock":
            self.nodes[ev[1]].lock_()
        elif kind in ("unlock", "unlockshallow"):
            self.nodes[ev[1]].unlock_()
        elif kind == "share":
            before = self.leaf_snapshot(ev[1])
            self.nodes[ev[1]].share_memory_()
            self.leaf_restore(before)
        elif kind == "memmap":
            self.nmm += 1
            before = self.leaf_snapshot(ev[1])
            # the option combinations of memmap_: sequential, threaded, threaded + return_early (the result comes out of `TensorDictFuture.result()`,
            # which has to build the lock graph like the sequential path)
            variant = (self.nmm + len(self.nodes)) % 3
            path = str(self.scratch / f"m{self.nmm}")
            if variant == 0:
                self.nodes[ev[1]].memmap_(path)
            elif variant == 1:
                self.nodes[ev[1]].memmap_(path, num_threads=2)
            else:
                fut = self.nodes[ev[1]].memmap_(path, num_threads=2, return_early=True)
                out = fut.result()
                if out is not self.nodes[ev[1]]:
                    raise RuntimeError("memmap_(return_early=True).result() is not the tensordict itself")
            self.leaf_restore(before)
        elif kind == "gc":
            i = ev[1]
            if self.held(i):
                raise Skip()
            import weakref
            w = weakref.ref(self.nodes[i])
            self.nodes[i] = None
            gc.collect()
            if w() is not None:
                import os
                if os.environ.get("C05_DEBUG"):
                    for r in gc.get_referrers(w()):
                        print("REFERRER", type(r), str(r)[:300])
        elif kind == "withlock":
            cm = self.nodes[ev[1]].lock_()
            cm.__enter__()
            self.ctx.append(cm)
        elif kind == "withunlock":
            cm = self.nodes[ev[1]].unlock_()
            cm.__enter__()
            self.ctx.append(cm)
        elif kind == "exit":
            if not self.ctx:
                raise Skip()
            cm = self.ctx.pop()
            cm.__exit__(None, None, None)
        elif kind == "mut":
            _, i, cls, meth, bypass, eff = ev
            self.mutate(self.nodes[i], meth, bypass, eff)
        elif kind == "mutp":
            _, i, path, cls, meth, bypass, eff = ev
            self.mutate(self.nodes[i], meth, bypass, eff, prefix=tuple(path))
        else:
            raise ValueError(kind)

    def leaf_snapshot(self, i):
        out = []
        for n in self.reach(i):
            if self.is_lazy(n):
                continue
            for k, v in n._tensordict.items():
                if isinstance(v, torch.Tensor):
                    out.append((n, k, self.leaf_no.get(id(v), -1)))
        return out

    def leaf_restore(self, before):
        for n, k, no in before:
            v = n._tensordict.get(k)
            if isinstance(v, torch.Tensor):
                self.leaf_no[id(v)] = no
                self.keep.append(v)

    def mutate(self, td, meth, bypass, eff, prefix=()):
        kind = eff[0]
        if prefix:
            return self.mutate_nested(td, meth, eff, prefix)
        if kind == "addleaf":
            _, k, no = eff
            t = torch.full(self.bs, 0.0)
            self.leaf_no[id(t)] = no
            self.keep.append(t)
            if meth == "set":
                td.set(k, t)
            elif meth == "__setitem__":
                td[k] = t
            elif meth == "update":
                td.update({k: t})
            elif meth == "setdefault":
                td.setdefault(k, t)
            else:
                raise ValueError(meth)
        elif kind == "addkid":
            _, k, j = eff
            if meth == "append":
                td.append(self.nodes[j])
            elif meth == "set":
                td.set(k, self.nodes[j])
            else:
                td[k] = self.nodes[j]
        elif kind == "del":
            k = eff[1]
            if meth == "del_":
                td.del_(k)
            elif meth == "__delitem__":
                del td[k]
            else:
                td.pop(k)
        elif kind == "rename":
            td.rename_key_(eff[1], eff[2])
        elif kind == "keep":
            td.select(*eff[1:], inplace=True)
        elif kind == "drop":
            td.exclude(*eff[1:], inplace=True)
        elif kind == "clear":
            td.clear()
        elif kind == "write":
            k = eff[1]
            cur = (td._tensordict._tensordict if self.is_tc(td) else td._tensordict).get(k)
            new = torch.full(self.bs, float(int(cur.flatten()[0].item()) + 1 if cur is not None else 1))
            if meth == "set_":
                td.set_(k, new)
            elif meth == "update_":
                td.update_({k: new})
            else:
                if cur is None:
                    raise KeyError(k)     # set(inplace=True) on a missing key is an insertion, not a write
                td.set(k, new, inplace=True)
        else:
            raise ValueError(kind)


class Skip(Exception):
    pass


def _mutate_nested(self, td, meth, eff, prefix):
    """the same effects through a nested key given to an ancestor"""
    kind = eff[0]
    key = lambda k: prefix + (k,)
    if kind == "addleaf":
        t = torch.full(self.bs, 0.0)
        self.leaf_no[id(t)] = eff[2]
        self.keep.append(t)
        if meth == "set":
            td.set(key(eff[1]), t)
        else:
            td[key(eff[1])] = t
    elif kind == "del":
        if meth == "del_":
            td.del_(key(eff[1]))
        elif meth == "__delitem__":
            del td[key(eff[1])]
        else:
            td.pop(key(eff[1]))
    elif kind == "rename":
        td.rename_key_(key(eff[1]), key(eff[2]))
    elif kind == "drop":
        td.exclude(*[key(k) for k in eff[1:]], inplace=True)
    elif kind == "write":
        tgt = td
        for k in prefix:
            tgt = tgt._tensordict[k]
        cur = tgt._tensordict.get(eff[1])
        new = torch.full(self.bs, float(int(cur.flatten()[0].item()) + 1 if cur is not None else 1))
        td.set_(key(eff[1]), new)
    else:
        raise ValueError(kind)


Impl.mutate_nested = _mutate_nested


# --------------------------------------------------------------------------- generation
def ev_sx(ev):
    """event -> s-expression text for the Lean driver"""
    k = ev[0]
    if k == "ctor":
        return sx("ctor", [list(e) for e in ev[1]], [list(e) for e in ev[2]], bool(ev[3]))
    if k == "lazy":
        return sx("lazy", list(ev[1]), bool(ev[2]))
    if k == "mut":
        return sx("mut", ev[1], ev[2], ev[3], bool(ev[4]), list(ev[5]))
    if k == "mutp":
        return sx("mutp", ev[1], list(ev[2]), ev[3], ev[4], bool(ev[5]), list(ev[6]))
    if k == "exit":
        return "(exit)"
    return sx(k, ev[1])


def cls_name(impl: Impl, i):
    return "LazyStackedTensorDict" if impl.is_lazy(impl.nodes[i]) else "TensorDict"


def gen_event(rng, impl: Impl, obj_counter):
    """one random legal event, chosen from the current real state"""
    live = [i for i, n in enumerate(impl.nodes) if n is not None]
    plain = [i for i in live if not impl.is_lazy(impl.nodes[i]) and not impl.is_tc(impl.nodes[i]) and not impl.is_params(impl.nodes[i])]
    has_tc = lambda i: any(impl.is_tc(x) or impl.is_params(x) for x in impl.reach(i))

    def fresh_leaves():
        ls = []
        for k in rng.sample(LEAF_KEYS, rng.randint(0, 2)):
            obj_counter[0] += 1
            ls.append((k, obj_counter[0], 0))
        return ls

    if impl.pending:
        return impl.pending.pop(0)
    # a `TensorDictParams(lock=True)` is a root only: a holder's `_propagate_unlock` stops at it (the content stays locked),
    # which the deep `propUnlockF` of the model does not represent
    pinned = [i for i in live if impl.is_pinned(impl.nodes[i])]
    live_all = live
    live = [i for i in live if i not in pinned]
    r = rng.random()
    # (the constructor registers the leaves as parameters / buffers: it iterates the content, which a heterogeneous lazy stack below refuses)
    wrappable = [j for j in plain if not any(impl.is_lazy(x) for x in impl.reach(j))] if (impl.allow_params and r < 0.03) else []
    if wrappable:
        j = rng.choice(wrappable)
        if rng.random() < 0.4:
            impl.pending.append(("ctor", [("params!", j)], [], rng.random() < 0.5, False))
            return ("lock", j)          # `lock=True` locks the content first
        return ("ctor", [("params", j)], [], rng.random() < 0.4, False)
    if pinned and r < 0.07:
        i = rng.choice(pinned)
        return (rng.choice(["unlockshallow", "unlockshallow", "lock", "gc"]), i) if not any(c is impl.nodes[i] for c in impl.ctx) else ("lock", i)
    if impl.allow_nts and rng.random() < 0.05:
        nts = [i for i in live if impl.is_nt(impl.nodes[i])]
        if len(nts) >= 2 and rng.random() < 0.5:
            ms = list(dict.fromkeys(rng.choice(nts) for _ in range(rng.randint(2, 3))))
            return ("lazy", ms, False)
        return ("ctor", [], [], rng.random() < 0.3, "nt")
    if len(live) < 3 or r < 0.16:
        nk = rng.choice([0, 0, 1, 1, 2, 3]) if live else 0
        ks = rng.sample(KID_KEYS, min(nk, len(KID_KEYS)))
        # (a NonTensorData bound into a tensordict is re-wrapped: only NonTensorStack keeps the very objects)
        adopt = [i for i in live if not impl.is_nt(impl.nodes[i])]
        kids = [(k, rng.choice(adopt)) for k in ks] if adopt else []
        return ("ctor", kids, fresh_leaves(), rng.random() < 0.3, rng.random() < 0.2)
    if r < 0.22 and plain:
        ms = [rng.choice(plain) for _ in range(rng.randint(1, 3))]
        ms = list(dict.fromkeys(ms))          # no duplicated member (not modelled)
        return ("lazy", ms, False)
    if r < 0.36:
        return ("lock", rng.choice(live))
    if r < 0.54:
        return ("unlock", rng.choice(live))
    if r < 0.60:
        return ("withlock" if rng.random() < 0.5 else "withunlock", rng.choice(live))
    if r < 0.66:
        return ("exit",)
    if r < 0.72:
        cands = [i for i in live if not any(c is impl.nodes[i] for c in impl.ctx)]
        if cands:
            return ("gc", rng.choice(cands))
    if r < 0.75:
        i = rng.choice(live)
        # a memory-mapped leaf unpickles as a second mapping of the same file (shared content): keep pickles to ordinary storage
        if not any(id(n) in impl.converted for n in impl.reach(i)) and not has_tc(i):
            return ("pickle", i)     # (the tensorclasses of the harness are created dynamically: not picklable)
        return ("lock", i)
    if r < 0.79:
        i = rng.choice(live)
        nodes = impl.reach(i)
        ok = all(not n.is_locked for n in nodes) and not any(id(n) in impl.converted for n in nodes) and not has_tc(i)
        if ok:
            kind = "memmap" if (rng.random() < 0.6 and not impl.is_lazy(impl.nodes[i])) else "share"
            if kind == "memmap" and not impl.is_tree(i):
                kind = "share"       # memmap_ maps every path to a file: a node reachable twice cannot be mapped twice
            for n in nodes:
                impl.converted.add(id(n))
            return (kind, i)
        return ("lock", i)
    # mutators
    i = rng.choice(live)
    n = impl.nodes[i]
    if impl.is_params(n):
        # the mutators of the wrapper unlock its content, call it and lock it again (`_unlock_and_set`): exercised by the sweep
        return (rng.choice(["lock", "unlock"]), i)
    if not impl.is_tc(n) and not impl.is_lazy(n) and rng.random() < 0.3:
        # through a nested key: walk one or two levels of plain tensordicts below i
        path, cur = [], n
        for _ in range(rng.randint(1, 2)):
            nxt = [(k, v) for k, v in impl.kids(cur) if not impl.is_lazy(v) and not impl.is_tc(v) and not impl.is_params(v)]
            if not nxt:
                break
            k, cur = rng.choice(nxt)
            path.append(k)
        if path:
            tkeys_l = [k for k, v in cur._tensordict.items() if isinstance(v, torch.Tensor)]
            tkeys = list(cur._tensordict.keys())
            q = rng.random()
            if q < 0.25:
                obj_counter[0] += 1
                return ("mutp", i, path, "TensorDict", rng.choice(["set", "__setitem__"]), False, ("addleaf", rng.choice(LEAF_KEYS), obj_counter[0]))
            if q < 0.5 and tkeys:
                return ("mutp", i, path, "TensorDict", rng.choice(["del_", "__delitem__", "pop"]), False, ("del", rng.choice(tkeys)))
            if q < 0.7:
                return ("mutp", i, path, "TensorDict", "exclude", True, ("drop", rng.choice(tkeys or LEAF_KEYS)))
            if q < 0.85 and tkeys:
                k = rng.choice(tkeys)
                # (old == new returns early on the object the call is made on: not a call on the nested node)
                k2 = rng.choice([x for x in (KID_KEYS if k in KID_KEYS else LEAF_KEYS) if x != k])
                return ("mutp", i, path, "TensorDict", "rename_key_", False, ("rename", k, k2))
            if tkeys_l:
                return ("mutp", i, path, "TensorDict", "set_", False, ("write", rng.choice(tkeys_l)))
    if impl.is_tc(n):
        # the fields of a tensorclass are fixed: value writes only
        keys_l = [k for k, v in impl.entries(n) if isinstance(v, torch.Tensor)]
        if not keys_l:
            return ("lock", i)
        return ("mut", i, "tensorclass", rng.choice(["set_", "update_"]), False, ("write", rng.choice(keys_l)))
    if impl.is_lazy(n):
        cands = [j for j in plain if j < i]
        if not cands or any(impl.is_nt(m) for m in n.tensordicts):
            return ("unlock", i)
        j = rng.choice(cands)
        if any(m is impl.nodes[j] for m in n.tensordicts):
            return ("lock", i)
        return ("mut", i, "LazyStackedTensorDict", "append", False, ("addkid", str(len(n.tensordicts)), j))
    keys_l = [k for k, v in n._tensordict.items() if isinstance(v, torch.Tensor)]
    keys_all = list(n._tensordict.keys())
    universe = KID_KEYS + LEAF_KEYS
    q = rng.random()
    if q < 0.2:
        obj_counter[0] += 1
        return ("mut", i, "TensorDict", rng.choice(["set", "__setitem__", "update"]), False,
                ("addleaf", rng.choice(LEAF_KEYS), obj_counter[0]))
    if q < 0.32:
        cands = [j for j in live if j < i and not any(impl.nodes[j] is x for x in [n]) and not impl.is_nt(impl.nodes[j])]
        if cands:
            return ("mut", i, "TensorDict", rng.choice(["set", "__setitem__"]), False, ("addkid", rng.choice(KID_KEYS), rng.choice(cands)))
    if q < 0.47:
        k = rng.choice(keys_all or universe)
        # `pop` fetches the value first: on a missing key it raises KeyError before it reaches the lock test
        return ("mut", i, "TensorDict", rng.choice(["del_", "__delitem__", "pop"] if k in keys_all else ["del_", "__delitem__"]), False, ("del", k))
    if q < 0.57:
        # kid keys and leaf keys live in disjoint universes (so the relative order of the tensor-collection entries, which is
        # what lock propagation depends on, is tracked exactly by the model's `kids` list)
        k = rng.choice(keys_all or universe)
        return ("mut", i, "TensorDict", "rename_key_", False, ("rename", k, rng.choice(KID_KEYS if k in KID_KEYS else LEAF_KEYS)))
    if q < 0.65:
        if keys_all and rng.random() < 0.8:
            chosen = set(rng.sample(keys_all, rng.randint(0, len(keys_all))))
            ks = [k for k in keys_all if k in chosen]      # `_select` rebuilds the dict in the order of the keys given: pass storage order
        else:
            ks = [rng.choice(universe)]
        return ("mut", i, "TensorDict", "select", True, ("keep", *ks))
    if q < 0.75:
        ks = rng.sample(universe, rng.randint(1, 2))
        return ("mut", i, "TensorDict", "exclude", True, ("drop", *ks))
    if q < 0.78:
        return ("mut", i, "TensorDict", "clear", False, ("clear",))
    k = rng.choice(keys_l) if keys_l and rng.random() < 0.85 else "zz"
    return ("mut", i, "TensorDict", rng.choice(["set_", "update_", "set"]), False, ("write", k))


def expand_pickle(impl: Impl, i, obj_counter):
    """pickle round trip of node i on the real side -> (list of model events, list of new real objects in id order)"""
    orig = impl.nodes[i]
    copy = pickle.loads(pickle.dumps(orig))
    events, new_objs = [], []
    memo = {}
    base = len(impl.nodes)

    def walk(o, c):
        if id(o) in memo:
            return memo[id(o)]
        if impl.is_lazy(o):
            ms = [walk(a, b) for a, b in zip(o.tensordicts, c.tensordicts)]
            ev = ("lazy", ms, bool(o._is_locked))
        else:
            kids, leaves = [], []
            for (k, v), (k2, v2) in zip(o._tensordict.items(), c._tensordict.items()):
                assert k == k2
                if isinstance(v, torch.Tensor):
                    obj_counter[0] += 1
                    impl.leaf_no[id(v2)] = obj_counter[0]
                    impl.keep.append(v2)
                    leaves.append((k, obj_counter[0], int(v.flatten()[0].item())))
                else:
                    kids.append((k, walk(v, v2)))
            ev = ("ctor", kids, leaves, bool(o._is_locked))
        nid = base + len(new_objs)
        memo[id(o)] = nid
        new_objs.append(c)
        events.append(ev)
        return nid

    walk(orig, copy)
    return events, new_objs


def run_history(rng, drv, n_events, scratch: Path):
    """-> (events, per-event (impl_answer, model_answer)) ; comparison is done by the caller"""
    impl = Impl(scratch)
    obj_counter = [0]
    evs_model, impl_answers, labels = [], [], []
    for _ in range(n_events):
        ev = gen_event(rng, impl, obj_counter)
        if ev[0] == "pickle":
            try:
                sub, objs = expand_pickle(impl, ev[1], obj_counter)
            except Exception as e:  # noqa
                continue
            impl.nodes += objs
            del objs              # the harness keeps exactly one handle per object: impl.nodes[i]
            view = impl.view()
            for k, e in enumerate(sub):
                evs_model.append(e)
                labels.append(("pickle-part", ev[1]))
                # only the state after the whole round trip is observable on the real side
                impl_answers.append(None if k < len(sub) - 1 else ["ok", view])
            continue
        out = impl.run(ev)
        evs_model.append(ev)
        labels.append(ev)
        impl_answers.append([out if not out.startswith("other") else out, impl.view()])
    # release context managers / objects
    impl.ctx.clear()
    line = "(c05.run " + " ".join(ev_sx(e) for e in evs_model) + ")"
    ans = parse_sx(drv.ask(line))
    return evs_model, impl_answers, ans, labels


def canon_model(a):
    """model answer for one event -> same shape as the impl answer"""
    out, view = a[0], a[1]
    rows = []
    for r in view:
        if r == "dead":
            rows.append("dead")
        else:
            rows.append([r[0], r[1], r[2], list(r[3]), [[str(e[0])] + list(e[1:]) for e in r[4]]])
    return [out, rows]


def sx_to_ev(text: str):
    """inverse of ev_sx (for corpus / replay files)"""
    p = parse_sx(text)
    k = p[0]
    b = lambda x: x == "true" or x is True
    if k == "ctor":
        return ("ctor", [(str(e[0]), e[1]) for e in p[1]], [(str(e[0]), e[1], e[2]) for e in p[2]], b(p[3]))
    if k == "lazy":
        return ("lazy", list(p[1]), b(p[2]))
    if k == "mut":
        eff = tuple(str(x) if not isinstance(x, int) or i == 0 else x for i, x in enumerate(p[5]))
        if eff[0] in ("addkid",):
            eff = (eff[0], str(p[5][1]), p[5][2])
        elif eff[0] in ("addleaf",):
            eff = (eff[0], str(p[5][1]), p[5][2])
        else:
            eff = (eff[0],) + tuple(str(x) for x in p[5][1:])
        return ("mut", p[1], p[2], p[3], b(p[4]), eff)
    if k == "mutp":
        e = p[6]
        eff = (e[0],) + tuple(str(x) if not isinstance(x, int) or e[0] not in ("addleaf",) or j != 1 else x for j, x in enumerate(e[1:]))
        if e[0] == "addleaf":
            eff = ("addleaf", str(e[1]), e[2])
        return ("mutp", p[1], [str(x) for x in p[2]], p[3], p[4], b(p[5]), eff)
    if k == "exit":
        return ("exit",)
    return (k, p[1])


def replay_events(drv, texts, scratch: Path):
    """run a fixed event list on both sides -> list of (event text, impl answer, model answer)"""
    impl = Impl(scratch)
    evs = [sx_to_ev(t) for t in texts]
    impl_answers = []
    for ev in evs:
        out = impl.run(ev)
        impl_answers.append([out, impl.view()])
    ans = parse_sx(drv.ask("(c05.run " + " ".join(ev_sx(e) for e in evs) + ")"))
    impl.ctx.clear()
    return [(t, ia, canon_model(ma)) for t, ia, ma in zip(texts, impl_answers, ans)]
