"""C19 — the round-1 vocabulary of the C18 program generator (straight-line tensordict programs), kept as a private copy so
that the C19 oracle stream does not depend on the evolving C18 modules."""
from __future__ import annotations

import torch

# ------------------------------------------------------------------------------------ programs
OPS = [
    "set_sum", "mul2", "add_td", "abs", "neg", "reshape_flat", "unsqueeze0", "unsqueeze_last", "permute_rev", "transpose01",
    "flatten01", "squeeze", "idx0", "idx_head", "idx_empty", "idx_tail", "idx_step", "idx_ell0", "idx_neg", "idx_list",
    "sum0", "stack0", "cat0", "stack_last", "select_a", "exclude_b", "apply_inc", "named_apply", "clone", "expand2", "unbind0",
    "split1", "chunk2", "getset_nested", "update_new", "rename", "setitem_idx", "where_self", "empty_like_add", "flatten_keys",
]


def apply_op(td, op):
    from tensordict import TensorDict
    if op == "set_sum":
        td = td.clone(False); td["z"] = td["a"] + 1; return td
    if op == "mul2":
        return td * 2
    if op == "add_td":
        return td + td
    if op == "abs":
        return td.abs()
    if op == "neg":
        return -td
    if op == "reshape_flat":
        return td.reshape(-1)
    if op == "unsqueeze0":
        return td.unsqueeze(0)
    if op == "unsqueeze_last":
        return td.unsqueeze(-1)
    if op == "permute_rev":
        return td.permute(*tuple(range(td.batch_dims))[::-1])  # not *reversed(...): torch 2.14 dynamo itself drops elements of a `reversed` iterator across a graph break (reproduced without tensordict)
    if op == "transpose01":
        return td.transpose(0, 1)
    if op == "flatten01":
        return td.flatten(0, 1)
    if op == "squeeze":
        return td.squeeze()
    if op == "idx0":
        return td[0]
    if op == "idx_head":
        return td[:1]
    if op == "idx_empty":
        return td[:0]
    if op == "idx_tail":
        return td[1:]
    if op == "idx_step":
        return td[::2]
    if op == "idx_ell0":
        return td[..., 0]
    if op == "idx_neg":
        return td[-1:]
    if op == "idx_list":
        return td[[0, 0]]
    if op == "sum0":
        return td.sum(0)
    if op == "stack0":
        return torch.stack([td, td], 0)
    if op == "stack_last":
        return torch.stack([td, td * 3], -1)
    if op == "cat0":
        return torch.cat([td, td], 0)
    if op == "select_a":
        return td.select("a")
    if op == "exclude_b":
        return td.exclude("b")
    if op == "apply_inc":
        return td.apply(lambda x: x + 1)
    if op == "named_apply":
        return td.named_apply(lambda k, x: x * (2 if k == "a" else 3))
    if op == "clone":
        return td.clone()
    if op == "expand2":
        return td.expand(2, *td.batch_size)
    if op == "unbind0":
        return td.unbind(0)[-1]
    if op == "split1":
        return td.split(1, 0)[0]
    if op == "chunk2":
        return td.chunk(2, 0)[-1]
    if op == "getset_nested":
        td = td.clone(False); td["n", "x"] = td["a"] * 5; return td
    if op == "update_new":
        td = td.clone(False); td.update({"w": td["a"] - 1}); return td
    if op == "rename":
        td = td.clone(False); td.rename_key_("a", "a2"); td["a"] = td["a2"]; return td
    if op == "setitem_idx":
        td = td.clone(); td[0] = td[-1]; return td
    if op == "where_self":
        return td.apply(lambda x: torch.where(x > 3, x, -x))
    if op == "empty_like_add":
        return td.apply(lambda x, y: x + y, td)
    if op == "flatten_keys":
        return td.flatten_keys(".")
    raise KeyError(op)


def run_program(td, ops):
    for op in ops:
        td = apply_op(td, op)
    return td


def make_input(shape):
    from tensordict import TensorDict
    n = 1
    for s in shape:
        n *= s
    a = torch.arange(n).reshape(shape)
    return TensorDict({"a": a.clone(), "b": (a * 10).unsqueeze(-1).expand(*shape, 2).clone(),
                       "n": TensorDict({"x": a + 100}, batch_size=shape)}, batch_size=shape)


