"""C10 — memory-mapped save/load is a faithful, shared, thread-safe round trip (DESIGN §6 C10)."""
from __future__ import annotations

import warnings

from common import Run, main_guard


def main():
    run = Run("C10")
    run.rule = ("save: random nested structures (leaves of 18 dtypes incl. 0-size and rank-0 features, NonTensorData, empty nodes) x memmap/memmap_/save x "
                "num_threads 0,1,2,4,8 x every completion order of <=4 writer tasks (sampled beyond); memmap_like; make_memmap merge; write-through; "
                "extended: lazy stacks, tensorclasses, NonTensorStack, views, NJT, readers/writers in forked (quick) and spawned (thorough) processes")
    run.trusted += [
        "Model/C10Memmap.lean: hand transcription of TensorDict._memmap_, _populate_memmap/_save_metadata targets, load_memmap/_load_memmap, "
        "make_memmap (validated each run by the correspondence streams)",
        "the OS (MAP_SHARED coherence between mappings and processes), torch.from_file, json: a file cell is assumed to be one coherent byte array",
    ]
    run.assumptions += ["names and lock state are not in the property's list and are not compared", "keys satisfy PathSafeKeys (excluded points are run and reported separately)"]
    from c12_fns import guarded_stream, hard_deadline, single_threaded_torch
    single_threaded_torch()
    from c12_fns import route_metadata_race
    route_metadata_race(run)
    quick = run.tier == "quick"
    import c11_gen
    try:
        c11_gen.regen()
    except Exception as e:  # noqa: BLE001
        run.proof_broken.append(f"generator:Dtypes:{type(e).__name__}:{e}")
    import c12_pins
    c12_pins.for_check(run, "C10")
    run.build_and_audit(["TdVerif.Props.C10"])
    drv = run.driver()
    with warnings.catch_warnings():
        warnings.simplefilter("ignore")
        import json
        from common import VERIF
        import c10_mm
        if run.replay:
            # ./check C10 --replay <file>: re-run the recorded failing save/load cases
            rep = json.loads(open(run.replay).read())
            n = c10_mm.replay_saves(run, drv, [f.get("case") for f in rep.get("failures", [])] + [x.get("case") for v in rep.get("broken_correspondence", {}).values() for x in v])
            run.notes.append(f"replayed {n} recorded cases from {run.replay}")
            run.finish("proof")
        corpus = [json.loads(p.read_text()) for p in sorted((VERIF / "corpus" / "C10").glob("*.json"))]
        run.count("corpus.cases", len(corpus))
        c10_mm.replay_saves(run, drv, [c["case"] for c in corpus], stream="save+load(corpus)")
        import c10_leaf
        with hard_deadline(300 if quick else 1500, "leaf level"):
            guarded_stream(run, "leaf", c10_leaf.run_leaf, run, drv)
            guarded_stream(run, "constructors", c10_leaf.run_ctors_pools, run, drv)
        with hard_deadline(420 if quick else 3000, "model streams"):
            guarded_stream(run, "model-streams", c10_mm.run_model_streams, run, drv)
        import c10_ext
        with hard_deadline(420 if quick else 3000, "extended domain (other processes)"):
            guarded_stream(run, "ext", c10_ext.run_ext, run, drv)
        # return_early=True: result() hands the tensordict back only when every writer task is done, and a load at that moment
        # returns the tensordict saved (same stream as C12's, seen from the save/load side)
        import c12_threads
        with hard_deadline(300 if quick else 1500, "return_early"):
            guarded_stream(run, "return-early", c12_threads.run_return_early, run, tag="c10e")
            # existsok=False over a former save: same outcome and same directory as the single-threaded form
            guarded_stream(run, "existsok", c12_threads.run_existsok, run, tag="c10x")
            # the writer task of a non-tensor entry under forced schedules against the model C10.MetaTask and the single-threaded save
            guarded_stream(run, "metadata-task", c12_threads.run_metadata_race, run, drv, tag="c10m")
    run.finish("proof")


if __name__ == "__main__":
    main_guard(main)
