"""C03 — index grammar: items, encoders (Python object / S-expression), generators.

An item is a tagged tuple:
  ("int", i) ("slice", a, b, c) ("none",) ("ell",) ("list", [ints]) ("range", a, b, c)
  ("tensor", shape, data) ("mask", shape, data01)
An index is ("single", item) or ("tuple", [items]).
"""
from __future__ import annotations

import itertools

import numpy as np
import torch

from common import Raw, sx

NONE = ("none",)
ELL = ("ell",)
FULL = ("slice", None, None, None)


def numel(shape):
    n = 1
    for s in shape:
        n *= s
    return n


# ----------------------------------------------------------------------------- encoders
def item_py(it, as_numpy=False):
    k = it[0]
    if k == "int":
        return np.int64(it[1]) if as_numpy else it[1]          # numpy integers are ints for indexing
    if k == "slice":
        return slice(it[1], it[2], it[3])
    if k == "none":
        return None
    if k == "ell":
        return Ellipsis
    if k == "list":
        return list(it[1])
    if k == "range":
        return range(it[1], it[2], it[3])
    if k == "tensor":
        t = torch.tensor(it[2], dtype=torch.long).reshape(it[1])
        return t.numpy() if as_numpy else t
    if k == "mask":
        t = torch.tensor([bool(b) for b in it[2]], dtype=torch.bool).reshape(it[1])
        return t.numpy() if as_numpy else t
    raise ValueError(k)


def index_py(idx, as_numpy=False):
    if idx[0] == "single":
        return item_py(idx[1], as_numpy)
    return tuple(item_py(i, as_numpy) for i in idx[1])


def item_sx(it) -> str:
    k = it[0]
    if k == "int":
        return sx("int", it[1])
    if k == "slice":
        return sx("slice", it[1], it[2], it[3])
    if k == "none":
        return "none"
    if k == "ell":
        return "ell"
    if k == "list":
        return sx("list", *it[1])
    if k == "range":
        return sx("range", it[1], it[2], it[3])
    if k == "tensor":
        return sx("tensor", ["shape"] + list(it[1]), list(it[2]))
    if k == "mask":
        return sx("mask", ["shape"] + list(it[1]), [int(b) for b in it[2]])
    raise ValueError(k)


def index_sx(idx) -> str:
    if idx[0] == "single":
        return "(single " + item_sx(idx[1]) + ")"
    return "(tuple" + "".join(" " + item_sx(i) for i in idx[1]) + ")"


def index_json(idx):
    """JSON-able, human-readable rendering for replays / samples"""
    def one(it):
        k = it[0]
        if k == "int":
            return it[1]
        if k == "slice":
            return f"slice({it[1]},{it[2]},{it[3]})"
        if k == "none":
            return "None"
        if k == "ell":
            return "..."
        if k == "list":
            return list(it[1])
        if k == "range":
            return f"range({it[1]},{it[2]},{it[3]})"
        if k == "tensor":
            return f"tensor(shape={list(it[1])},data={list(it[2])})"
        if k == "mask":
            return f"mask(shape={list(it[1])},data={[int(b) for b in it[2]]})"
    if idx[0] == "single":
        return {"single": one(idx[1])}
    return {"tuple": [one(i) for i in idx[1]]}


def items_of(idx):
    return [idx[1]] if idx[0] == "single" else list(idx[1])


def kind_of(it) -> str:
    k = it[0]
    if k == "tensor":
        return f"tensor{len(it[1])}d"
    if k == "mask":
        return f"mask{len(it[1])}d"
    if k == "int":
        return "int"
    if k == "slice":
        st = it[3]
        if st is not None and st < 0:
            return "slice-negstep"
        if st == 0:
            return "slice-zerostep"
        return "slice"
    return k


def n_advanced(idx) -> int:
    return sum(1 for it in items_of(idx) if it[0] in ("list", "range", "mask") or (it[0] == "tensor" and len(it[1]) > 0))


def specified(idx) -> int:
    n = 0
    for it in items_of(idx):
        if it[0] in ("none", "ell"):
            continue
        n += len(it[1]) if it[0] == "mask" else 1
    return n


def stage_of(idx) -> str:
    a = n_advanced(idx)
    return "stage1-basic" if a == 0 else ("stage2-one-advanced" if a == 1 else "stage3-several-advanced")


# ----------------------------------------------------------------------------- random generation
def gen_item_for_dim(rng, n, nxt, bshape, p_bad):
    """an item addressing a dim of size n (`nxt` = size of the following dim or None, for 2-d masks).
    returns (item, dims_consumed)"""
    bad = rng.random() < p_bad
    r = rng.random()
    if r < 0.22:  # int
        if bad or n == 0:
            return ("int", rng.choice([n, n + 1, -n - 1, -n - 2])), 1
        return ("int", rng.randrange(-n, n)), 1
    if r < 0.47:  # slice
        vals = [None, None, 0, 1, 2, -1, -2, n, n + 1, -n - 1, 3]
        a, b = rng.choice(vals), rng.choice(vals)
        c = rng.choice([None, None, 1, 1, 2, 3])
        if bad:
            c = rng.choice([-1, -2, 0])
        return ("slice", a, b, c), 1
    if r < 0.57:  # list
        L = bshape[-1] if bshape and rng.random() < 0.85 else rng.randint(0, 3)
        if rng.random() < 0.15:
            L = 1
        data = [rng.randrange(-n, n) if n > 0 else 0 for _ in range(L)]
        if (bad or n == 0) and L > 0:
            data[rng.randrange(L)] = rng.choice([n, -n - 1, n + 2])
        return ("list", data), 1
    if r < 0.64:  # range
        if bad:
            return ("range", 0, n + 1, 1), 1
        cands = [(0, n, 1), (0, n, 2), (n - 1, -1, -1), (0, 0, 1), (0, min(n, 1), 1), (0, min(n, 2), 1)]
        return ("range",) + rng.choice(cands), 1
    if r < 0.70:  # 0-d tensor
        if bad or n == 0:
            return ("tensor", [], [rng.choice([n, -n - 1])]), 1
        return ("tensor", [], [rng.randrange(-n, n)]), 1
    if r < 0.86:  # 1-d / 2-d integer tensor
        if bshape and rng.random() < 0.85:
            full = list(bshape)
            k = rng.randint(1, len(full))
            shape = full[len(full) - k:]
            shape = [1 if rng.random() < 0.2 else s for s in shape]
        else:
            shape = [rng.randint(0, 3) for _ in range(rng.randint(1, 2))]
        ne = numel(shape)
        data = [rng.randrange(-n, n) if n > 0 else 0 for _ in range(ne)]
        if (bad or n == 0) and ne > 0:
            data[rng.randrange(ne)] = rng.choice([n, -n - 1, n + 2])
        return ("tensor", shape, data), 1
    # mask
    if nxt is not None and rng.random() < 0.4:
        shape = [n, nxt]
        if bad:
            shape = rng.choice([[n + 1, nxt], [n, nxt + 1], [nxt + 1, n]])
        ne = numel(shape)
        data = [1 if rng.random() < 0.5 else 0 for _ in range(ne)]
        if bshape and not bad and ne >= bshape[-1] and rng.random() < 0.8 and len(bshape) == 1:
            # make nnz == the common broadcast length
            data = [1] * bshape[-1] + [0] * (ne - bshape[-1])
            rng.shuffle(data)
        return ("mask", shape, data), 2
    shape = [n]
    if bad:
        shape = [n + rng.choice([1, 2])]
    ne = shape[0]
    data = [1 if rng.random() < 0.5 else 0 for _ in range(ne)]
    if bshape and not bad and ne >= bshape[-1] and rng.random() < 0.8 and len(bshape) == 1:
        data = [1] * bshape[-1] + [0] * (ne - bshape[-1])
        rng.shuffle(data)
    return ("mask", shape, data), 1


def gen_index(rng, bs, p_bad=0.06, p_overrun=0.06):
    """structure-directed index for batch shape `bs`: mostly valid, sometimes malformed"""
    rank = len(bs)
    # common broadcast shape for the advanced items of this index
    bshape = rng.choice([[1], [2], [2], [3], [2, 2], [2, 1], [1, 3], [0]])
    r = rng.random()
    if r < 0.18:
        # a bare (non-tuple) object
        if rng.random() < 0.12:
            return ("single", rng.choice([NONE, ELL, FULL]))
        if rank == 0:
            it, _ = gen_item_for_dim(rng, rng.randint(1, 3), None, bshape, p_bad)
            return ("single", it)
        it, _ = gen_item_for_dim(rng, bs[0], bs[1] if rank > 1 else None, bshape, p_bad)
        return ("single", it)
    overrun = rng.random() < p_overrun
    total = rng.randint(0, rank) if not overrun else rank + rng.randint(1, 2)
    use_ell = rng.random() < 0.35
    k = rng.randint(0, total) if use_ell else total      # dims addressed before the ellipsis
    m = total - k                                        # dims addressed after it
    dims_before = list(bs[:k]) if k <= rank else list(bs) + [rng.randint(1, 3) for _ in range(k - rank)]
    dims_after = list(bs[rank - m:]) if m <= rank else [rng.randint(1, 3) for _ in range(m - rank)] + list(bs)

    def fill(dims):
        out, i = [], 0
        while i < len(dims):
            nxt = dims[i + 1] if i + 1 < len(dims) else None
            it, used = gen_item_for_dim(rng, dims[i], nxt, bshape, p_bad)
            out.append(it)
            i += used
        return out
    items = fill(dims_before)
    if use_ell:
        items.append(ELL)
        items += fill(dims_after)
    # sprinkle Nones
    for _ in range(rng.choice([0, 0, 0, 1, 1, 2])):
        items.insert(rng.randint(0, len(items)), NONE)
    if rng.random() < 0.02:
        items.insert(rng.randint(0, len(items)), ELL)    # (possibly) a second ellipsis: malformed stream
    return ("tuple", items)


def gen_index_adv(rng, bs):
    """an index with two or more advanced items (compatible broadcast shapes) separated by ints / slices / Nones:
    the adjacent / non-adjacent placement rule is what this stream is after. Needs rank >= 2."""
    rank = len(bs)
    if rank < 2:
        return gen_index(rng, bs)
    L = rng.choice([1, 2, 2, 3])
    bshape = rng.choice([[L], [L], [L, 1], [1, L], [2, L]])
    n_adv = rng.randint(2, min(3, rank))
    adv_pos = sorted(rng.sample(range(rank), n_adv))
    items = []
    for d in range(rank):
        n = bs[d]
        if d in adv_pos:
            kind = rng.choice(["list", "tensor", "tensor", "mask", "range"])
            if n == 0:
                kind = "tensor"
            if kind == "list":
                Lk = bshape[-1] if rng.random() < 0.8 else 1
                items.append(("list", [rng.randrange(-n, n) for _ in range(Lk)]))
            elif kind == "range":
                Lk = min(n, bshape[-1])
                items.append(("range", 0, Lk, 1) if Lk == bshape[-1] else ("list", [rng.randrange(-n, n) for _ in range(bshape[-1])]))
            elif kind == "mask" and len(bshape) == 1 and n >= bshape[0]:
                data = [1] * bshape[0] + [0] * (n - bshape[0])
                rng.shuffle(data)
                items.append(("mask", [n], data))
            else:
                k = rng.randint(1, len(bshape))
                shape = [1 if rng.random() < 0.25 else x for x in bshape[len(bshape) - k:]]
                items.append(("tensor", shape, [rng.randrange(-n, n) if n else 0 for _ in range(numel(shape))]))
        else:
            r = rng.random()
            if r < 0.35 and n > 0:
                items.append(("int", rng.randrange(-n, n)) if rng.random() < 0.7 else ("tensor", [], [rng.randrange(-n, n)]))
            else:
                items.append(("slice", rng.choice([None, 0, 1]), rng.choice([None, n, -1]), rng.choice([None, 1, 2])))
    # trailing full slices may be dropped, or replaced by an Ellipsis
    if rng.random() < 0.3:
        while items and items[-1][0] == "slice" and len(items) - 1 > adv_pos[-1]:
            items.pop()
            if rng.random() < 0.5:
                break
    for _ in range(rng.choice([0, 1, 1, 2])):
        items.insert(rng.randint(0, len(items)), NONE)
    if rng.random() < 0.2:
        # an Ellipsis in place of a run of full-ish slices at a random admissible place (may shift dims: still a legal index)
        pos = rng.randint(0, len(items))
        if sum(1 for it in items if it[0] not in ("none",)) < rank or True:
            cand = [i for i, it in enumerate(items) if it == FULL]
            if cand:
                i = rng.choice(cand)
                items[i] = ELL
    return ("tuple", items)


def gen_bs(rng, max_rank=3, sizes=(0, 1, 2, 3, 4)):
    rank = rng.choice([0, 1, 1, 2, 2, 2, 3, 3])
    rank = min(rank, max_rank)
    return [rng.choice(sizes[1:] if rng.random() < 0.85 else sizes) for _ in range(rank)]


# ----------------------------------------------------------------------------- exhaustive alphabet
def alphabet(bs):
    """the fixed item alphabet used for exhaustive enumeration on batch shape `bs`"""
    sizes = sorted(set(bs)) or [2]
    n0 = sizes[-1]
    al = [
        ("int", 0), ("int", -1), ("int", n0),
        FULL, ("slice", 1, None, None), ("slice", None, -1, None), ("slice", None, None, 2), ("slice", 0, 0, None),
        ("slice", None, None, -1),
        NONE, ELL,
        ("list", [0, 0]), ("list", [0]),
        ("range", 0, 1, 1),
        ("tensor", [], [0]), ("tensor", [2], [0, -1]), ("tensor", [2, 1], [0, 0]),
    ]
    for n in sizes:
        al.append(("mask", [n], [1 if i % 2 == 0 else 0 for i in range(n)]))
    if len(bs) >= 2:
        seen = set()
        for a, b in zip(bs, bs[1:]):
            if (a, b) in seen:
                continue
            seen.add((a, b))
            al.append(("mask", [a, b], [1 if i % 3 != 1 else 0 for i in range(a * b)]))
    return al


def all_shapes(max_rank, sizes):
    out = []
    for r in range(max_rank + 1):
        out += [list(t) for t in itertools.product(sizes, repeat=r)]
    return out
