"""C15 / C16 — ast-shape obligations for the functions the Lean models transcribe by hand.

Each transcribed function (file, dotted qualified name) has a fingerprint = sha256 of `ast.dump` of its definition with
docstrings removed (comments and formatting are not part of the ast).  The fingerprints the model was written against are
kept in corpus/<Cxx>/transcribed.json.  A run recomputes them from the working tree: a function that no longer has the
recorded shape is reported as a broken obligation `transcription:<file>:<qualname>` — the edit has to be re-transcribed into
the model (or shown irrelevant) and the fingerprint re-recorded, even if no sampled input behaves differently.

Re-record after re-transcribing:   VERIF_REPO=… /venv/bin/python harness/c15_ast.py record C15|C16
"""
from __future__ import annotations

import ast
import hashlib
import json
import os
import sys
from pathlib import Path

ROOT = Path(__file__).resolve().parent.parent


def repo() -> Path:
    return Path(os.environ.get("VERIF_REPO", "/repo"))


# what each model transcribes: (file relative to the repo, qualified name, where it lives in the model)
TRANSCRIBED = {
    "C15": [
        ("tensordict/tensorclass.py", "_wrap_td_method", "Model/C15Tensorclass.lean: deliver / wrapCall / delegatedWrite"),
        ("tensordict/tensorclass.py", "_drop_stale_placeholders", "dropStale"),
        ("tensordict/tensorclass.py", "_wrap_method", "wrapMethodFallback"),
        ("tensordict/tensorclass.py", "_from_tensordict", "fromTensordict"),
        ("tensordict/tensorclass.py", "_getattr", "getField"),
        ("tensordict/tensorclass.py", "_set", "setField"),
        ("tensordict/tensorclass.py", "_del_", "delField"),
        ("tensordict/tensorclass.py", "_getitem", "getitemTc"),
        ("tensordict/tensorclass.py", "_setitem", "setitemTc"),
        ("tensordict/tensorclass.py", "_update", "updateTc"),
        ("tensordict/tensorclass.py", "_to_tensordict", "toTensordict (spec side)"),
        ("tensordict/tensorclass.py", "_to_dict", "exports oracle"),
        ("tensordict/tensorclass.py", "_tensorclass.__torch_function__", "torchFunction"),
    ],
    "C16": [
        ("tensordict/tensorclass.py", "NonTensorData._stack_non_tensor", "Model/C16NonTensor.lean: stackNT"),
        ("tensordict/tensorclass.py", "NonTensorData.maybe_to_stack", "maybeToStack (shared)"),
        ("tensordict/tensorclass.py", "NonTensorStack.maybe_to_stack", "maybeToStack (stack)"),
        ("tensordict/tensorclass.py", "NonTensorData.tolist", "tolistN (shared)"),
        ("tensordict/tensorclass.py", "NonTensorStack.tolist", "tolistN (stack)"),
        ("tensordict/tensorclass.py", "NonTensorStack._from_list", "fromNest"),
        ("tensordict/tensorclass.py", "NonTensorStack.reshape", "reshape (fallback branch)"),
        ("tensordict/_lazy.py", "LazyStackedTensorDict._split_index", "splitAt / selectPositions"),
        ("tensordict/_lazy.py", "LazyStackedTensorDict.__getitem__", "index"),
        ("tensordict/_lazy.py", "LazyStackedTensorDict.__setitem__", "assign"),
        ("tensordict/_lazy.py", "LazyStackedTensorDict._unbind", "unbind"),
        ("tensordict/_lazy.py", "LazyStackedTensorDict._permute", "permute"),
        ("tensordict/_lazy.py", "LazyStackedTensorDict._squeeze", "squeeze"),
        ("tensordict/_lazy.py", "LazyStackedTensorDict._unsqueeze", "unsqueeze"),
        ("tensordict/_lazy.py", "LazyStackedTensorDict._view", "flattenDims / unflattenDim / reshape"),
        ("tensordict/_td.py", "TensorDict._set_at_str", "setitem (promotion to a stack, whole-entry branch)"),
    ],
}


def _strip_docstrings(node):
    for n in ast.walk(node):
        if isinstance(n, (ast.FunctionDef, ast.AsyncFunctionDef, ast.ClassDef, ast.Module)):
            b = n.body
            if b and isinstance(b[0], ast.Expr) and isinstance(getattr(b[0], "value", None), ast.Constant) and isinstance(b[0].value.value, str):
                n.body = b[1:] or [ast.Pass()]
    return node


def _find(tree, qual: str):
    """the LAST definition with that dotted name (python semantics: a later def replaces an earlier one); nested defs allowed"""
    parts = qual.split(".")
    nodes = [tree]
    for p in parts:
        nxt = []
        for n in nodes:
            for c in getattr(n, "body", []):
                if isinstance(c, (ast.FunctionDef, ast.AsyncFunctionDef, ast.ClassDef)) and c.name == p:
                    nxt.append(c)
                # a def guarded by `if` / `try` at that level
                elif isinstance(c, (ast.If, ast.Try, ast.With)):
                    for d in ast.walk(c):
                        if isinstance(d, (ast.FunctionDef, ast.AsyncFunctionDef, ast.ClassDef)) and d.name == p:
                            nxt.append(d)
        nodes = nxt
        if not nodes:
            return None
    return nodes[-1]


_cache: dict = {}


def fingerprint(relpath: str, qual: str):
    key = str(repo() / relpath)
    if key not in _cache:
        _cache[key] = ast.parse(Path(key).read_text())
    node = _find(_cache[key], qual)
    if node is None:
        return None
    import copy
    node = _strip_docstrings(copy.deepcopy(node))
    return hashlib.sha256(ast.dump(node, include_attributes=False).encode()).hexdigest()[:20]


def record_path(prop: str) -> Path:
    return ROOT / "corpus" / prop / "transcribed.json"


def current(prop: str) -> dict:
    return {f"{f}:{q}": fingerprint(f, q) for f, q, _ in TRANSCRIBED[prop]}


def check(run, prop: str):
    """adds one obligation per transcribed function; a changed / vanished function is a broken obligation"""
    try:
        want = json.loads(record_path(prop).read_text())
    except Exception as e:  # noqa: BLE001
        run.proof_broken.append(f"transcription-record-unreadable:{type(e).__name__}")
        return
    got = current(prop)
    where = {f"{f}:{q}": w for f, q, w in TRANSCRIBED[prop]}
    for name in sorted(got):
        ob = f"transcription:{name}"
        run.obligations.append(ob)
        if got[name] is None:
            run.proof_broken.append(f"{ob}:not-found (model part: {where[name]})")
        elif want.get(name) != got[name]:
            run.proof_broken.append(f"{ob}:changed since it was transcribed (model part: {where[name]}): re-transcribe, then re-record")
        else:
            run.discharged.append(ob)
    run.count("transcription.functions", prop, len(got))


# ------------------------------------------------------------------ compile twins
COMPILE_TWINS = {
    "C15": [("tensordict/tensorclass.py", "_wrap_td_method"), ("tensordict/tensorclass.py", "_drop_stale_placeholders")],
}


class _EagerToPlain(ast.NodeTransformer):
    """`super(type(self), self).__getattribute__("name")`  ->  `self.name`"""

    def visit_Call(self, node):
        self.generic_visit(node)
        f = node.func
        if (isinstance(f, ast.Attribute) and f.attr == "__getattribute__" and isinstance(f.value, ast.Call)
                and isinstance(f.value.func, ast.Name) and f.value.func.id == "super"
                and len(node.args) == 1 and isinstance(node.args[0], ast.Constant) and isinstance(node.args[0].value, str)):
            return ast.Attribute(value=ast.Name(id="self", ctx=ast.Load()), attr=node.args[0].value, ctx=ast.Load())
        return node


def compile_twins(run, prop: str):
    """the wrappers of tensorclass.py fetch `_tensordict` / `_non_tensordict` in two ways (`if not is_compiling(): … else: …`); the model
    transcribes the eager branch.  Obligation per function: every such statement has an `else` branch that is the eager branch with
    `super(type(self), self).__getattribute__("x")` read as `self.x` — so what is proved / observed for the eager path holds for the
    compiled one as far as these functions go."""
    import copy
    for rel, qual in COMPILE_TWINS.get(prop, []):
        key = str(repo() / rel)
        if key not in _cache:
            _cache[key] = ast.parse(Path(key).read_text())
        node = _find(_cache[key], qual)
        ob = f"compile-twin:{rel}:{qual}"
        run.obligations.append(ob)
        if node is None:
            run.proof_broken.append(ob + ":not-found")
            continue
        n_twins, bad = 0, []
        for sub in ast.walk(node):
            if not isinstance(sub, ast.If):
                continue
            t = sub.test
            is_not_compiling = (isinstance(t, ast.UnaryOp) and isinstance(t.op, ast.Not) and isinstance(t.operand, ast.Call)
                                and isinstance(t.operand.func, ast.Name) and t.operand.func.id == "is_compiling")
            if not is_not_compiling or not sub.orelse:
                continue
            n_twins += 1
            eager = [_EagerToPlain().visit(copy.deepcopy(x)) for x in sub.body]
            if [ast.dump(x) for x in eager] != [ast.dump(x) for x in sub.orelse]:
                bad.append(sub.lineno)
        if bad or not n_twins:
            run.proof_broken.append(f"{ob}:the compile branch differs from the eager branch at lines {bad}" if bad else f"{ob}:no eager/compile statement found")
        else:
            run.discharged.append(ob)
            run.count("transcription.compile_twins", qual, n_twins)


if __name__ == "__main__":
    if len(sys.argv) == 3 and sys.argv[1] == "record":
        p = sys.argv[2]
        cur = current(p)
        missing = [k for k, v in cur.items() if v is None]
        if missing:
            print("NOT FOUND:", missing)
            sys.exit(1)
        record_path(p).parent.mkdir(parents=True, exist_ok=True)
        record_path(p).write_text(json.dumps(cur, indent=1, sort_keys=True) + "\n")
        print(f"recorded {len(cur)} fingerprints for {p}")
    else:
        for p in TRANSCRIBED:
            print(p, json.dumps(current(p), indent=1))
