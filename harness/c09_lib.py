"""C09 helpers: operation tables found by reflection, operand builders, canonicalisers, model-term evaluator."""
from __future__ import annotations

import ast
import inspect
import operator
import textwrap

import torch

from common import Infra, err_class, parse_sx, sx

# --------------------------------------------------------------------------- reflection: operation tables


def foreach_table():
    """method name -> torch._foreach_<op> it calls, by ast over tensordict/base.py:TensorDictBase
    (the name tables of the fused path are read from the source on every run)."""
    import tensordict.base as B
    src = inspect.getsource(B)
    tree = ast.parse(src)
    table = {}
    for node in ast.walk(tree):
        if isinstance(node, ast.ClassDef) and node.name == "TensorDictBase":
            for fn in node.body:
                if not isinstance(fn, ast.FunctionDef):
                    continue
                ops = set()
                for c in ast.walk(fn):
                    if isinstance(c, ast.Call) and isinstance(c.func, ast.Attribute) and isinstance(c.func.value, ast.Name) \
                            and c.func.value.id == "torch" and c.func.attr.startswith("_foreach_"):
                        ops.add(c.func.attr[len("_foreach_"):])
                if ops:
                    nargs = len([a for a in fn.args.args if a.arg != "self"])
                    table.setdefault(fn.name, {"ops": sorted(ops), "nargs": nargs, "kwonly": [a.arg for a in fn.args.kwonlyargs]})
    return table


UNARY_SAFE_DOMAIN = {  # float64 inputs for which the op is finite (values are powers of two / small fractions)
    "acos": "unit", "asin": "unit", "atan": "any", "cos": "any", "cosh": "any", "sin": "any", "sinh": "any", "tan": "unit",
    "tanh": "any", "exp": "any", "expm1": "any", "log": "pos", "log10": "pos", "log1p": "pos", "log2": "pos",
    "sqrt": "pos", "reciprocal": "pos", "lgamma": "pos", "erf": "any", "erfc": "any", "sigmoid": "any",
    "abs": "int", "neg": "int", "sign": "int", "trunc": "any", "ceil": "any", "floor": "any", "round": "any", "frac": "any",
}

BINARY_INT = ["add", "sub", "mul", "maximum", "minimum", "clamp_max", "clamp_min"]
BINARY_FLOAT = ["div"]
BINARY_POW = ["pow"]
TERNARY = ["lerp", "addcmul", "addcdiv"]
COMPARE = ["__eq__", "__ne__", "__ge__", "__gt__", "__le__", "__lt__"]
BITWISE_CMP_STYLE = ["__or__", "__xor__"]          # implemented like the comparisons in _td.py
LOGICAL_BINARY = ["bitwise_and", "logical_and", "__and__"]

DUNDER_REF = {
    "__add__": operator.add, "__radd__": lambda x, o: o + x, "__sub__": operator.sub, "__rsub__": lambda x, o: o - x,
    "__mul__": operator.mul, "__rmul__": lambda x, o: o * x, "__truediv__": operator.truediv,
    "__rtruediv__": lambda x, o: o / x, "__pow__": operator.pow,
    "__iadd__": operator.add, "__isub__": operator.sub, "__imul__": operator.mul, "__itruediv__": operator.truediv, "__ipow__": operator.pow,
    "__eq__": operator.eq, "__ne__": operator.ne, "__ge__": operator.ge, "__gt__": operator.gt, "__le__": operator.le, "__lt__": operator.lt,
    "__or__": operator.or_, "__xor__": operator.xor, "__and__": operator.and_, "__rand__": lambda x, o: o & x,
    "__ror__": lambda x, o: o | x, "__rxor__": lambda x, o: o ^ x,
    "__neg__": operator.neg, "__abs__": operator.abs, "__invert__": operator.invert,
}


def ref_op(name):
    """the torch operation a tensordict method/operator must apply per key"""
    if name in DUNDER_REF:
        return DUNDER_REF[name]
    base = name[:-1] if name.endswith("_") and not name.endswith("__") else name
    f = getattr(torch.Tensor, base, None)
    if f is None:
        raise Infra(f"no torch.Tensor.{base}")
    return lambda *a, **k: f(*[x.clone() if isinstance(x, torch.Tensor) and i == 0 else x for i, x in enumerate(a)], **k)


# --------------------------------------------------------------------------- operands

KEY_POOL = [("a",), ("b",), ("c",), ("n", "x"), ("n", "y"), ("m", "p", "q"), ("m", "r")]
FEAT = {("a",): (), ("b",): (2,), ("c",): (1,), ("n", "x"): (), ("n", "y"): (3,), ("m", "p", "q"): (2, 2), ("m", "r"): (),
        ("z",): (), ("n", "z"): (2,), ("w", "v"): ()}
EXTRA_POOL = [("z",), ("n", "z"), ("w", "v")]


def dfs_order(paths):
    """order in which `items(True, True)` visits leaves inserted in the order `paths` (first touch creates the
    nested tensordict, so siblings under one prefix are grouped at the prefix's first occurrence)"""
    tree = {}
    for p in paths:
        d = tree
        for s in p[:-1]:
            d = d.setdefault(s, {})
        d[p[-1]] = None
    out = []

    def walk(d, pre):
        for k, v in d.items():
            if v is None:
                out.append(pre + (k,))
            else:
                walk(v, pre + (k,))
    walk(tree, ())
    return out


def build_td(leaves: dict, order, batch, names=None, lock=False):
    """TensorDict whose leaves are inserted one by one in `order` (controls insertion *and* nesting order)"""
    from tensordict import TensorDict
    td = TensorDict({}, batch_size=list(batch), names=names)
    for p in order:
        td[p if len(p) > 1 else p[0]] = leaves[p]
    if lock:
        td.lock_()
    return td


def gen_vals(rng, shape, kind):
    n = 1
    for s in shape:
        n *= s
    if kind == "int":
        v = torch.tensor([rng.randint(-40, 40) for _ in range(n)], dtype=torch.int64)
    elif kind == "smallint":
        v = torch.tensor([rng.randint(0, 3) for _ in range(n)], dtype=torch.int64)
    elif kind == "posint":
        v = torch.tensor([rng.randint(1, 4) for _ in range(n)], dtype=torch.int64)
    elif kind == "bool":
        v = torch.tensor([rng.random() < 0.5 for _ in range(n)], dtype=torch.bool)
    elif kind == "float":      # small integers in float64: sums / halves are exact
        v = torch.tensor([float(rng.randint(-16, 16)) for _ in range(n)], dtype=torch.float64)
    elif kind == "pow2":       # divisors: exact division
        v = torch.tensor([float(2 ** rng.randint(-2, 3)) * rng.choice([1, -1]) for _ in range(n)], dtype=torch.float64)
    elif kind == "unit":
        v = torch.tensor([rng.randint(-7, 7) / 8.0 for _ in range(n)], dtype=torch.float64)
    elif kind == "pos":
        v = torch.tensor([rng.randint(1, 64) / 8.0 for _ in range(n)], dtype=torch.float64)
    elif kind == "any":
        v = torch.tensor([rng.randint(-24, 24) / 8.0 for _ in range(n)], dtype=torch.float64)
    elif kind == "weight":
        v = torch.tensor([rng.choice([0.0, 0.25, 0.5, 1.0]) for _ in range(n)], dtype=torch.float64)
    else:
        raise Infra(kind)
    return v.reshape(shape)


def gen_leaves(rng, paths, batch, kind):
    return {p: gen_vals(rng, tuple(batch) + FEAT[p], kind) for p in paths}


def canon_tensor(t):
    if not isinstance(t, torch.Tensor):
        return ["py", repr(t)]
    vals = t.reshape(-1).tolist()
    if t.is_floating_point():
        vals = [("nan" if v != v else v) for v in vals]      # NaN must compare equal to itself in the canonical form
    return [str(t.dtype).replace("torch.", ""), list(t.shape), vals]


def canon_kv(kv: dict):
    """{path: tensor} -> sorted canonical list"""
    return [[".".join(p), canon_tensor(v)] for p, v in sorted(kv.items())]


def td_leaves(td):
    out = {}
    for k, v in td.items(True, True):
        out[(k,) if isinstance(k, str) else tuple(k)] = v
    return out


def paths_sx(paths):
    return [list(p) for p in paths]


# --------------------------------------------------------------------------- model term evaluation

def eval_term(term, env, f):
    """term: parsed S-expression of Drive/C09.Sym; env: {('l', side): {path: tensor}, ('sc', i): value-or-fn(path), 'd': tensor}"""
    tag = term[0]
    if tag == "l":
        return env[("l", term[1])][tuple(term[2])]
    if tag == "sc":
        return env[("sc", term[1])]
    if tag == "d":
        return env["d"]
    if tag == "f":
        return f(*[eval_term(t, env, f) for t in term[1:]])
    raise Infra(f"bad term {term}")


def model_kv(ans, env, f, per_key_sc=None):
    """model answer -> ('ok', {path: tensor}) or ('err', cls). `per_key_sc(i, path, self_leaf)` supplies the operand a
    non-tensordict operand becomes for one key (tensor operands are broadcast per leaf)."""
    a = parse_sx(ans)
    if a[0] == "err":
        return ("err", a[1])
    out = {}
    for ent in a[1:]:
        path = tuple(ent[0])
        if per_key_sc is not None:
            env2 = dict(env)
            for key in list(env):
                if isinstance(key, tuple) and key[0] == "sc":
                    env2[key] = per_key_sc(key[1], path)
            out[path] = eval_term(ent[1], env2, f)
        else:
            out[path] = eval_term(ent[1], env, f)
    return ("ok", out)


def impl_call(fn):
    """run an implementation call; ('ok', value) or ('err', class)"""
    from common import time_limit
    try:
        with time_limit(180):
            return ("ok", fn())
    except TimeoutError as e:  # a slow box is an infrastructure problem, never a violation
        raise Infra(f"implementation call timed out: {e}")
    except Exception as e:  # noqa: BLE001
        return ("err", err_class(e), f"{type(e).__name__}: {str(e)[:160]}")
