"""C07 — in-place operations keep storage; out-of-place never disturb it (DESIGN §6 C07).

Per case: build a container (kind × layout), run a random preceding history on it, refresh the cell
values so that every storage cell is distinct (provenance), snapshot the abstract state
(storage id, element offsets, values) of the container's entries, of handles taken from it and of
the arguments, run ONE public operation on the real library, then sentinel-write through result and
source leaves.  The same history is run by the compiled Lean model (class looked up in the Lean
table) and every intermediate state is compared; the property oracle judges the real observations
directly from the property text.
"""
from __future__ import annotations

import json
import shutil
import tempfile

import torch

import re

from common import BUILD, LEAN, Infra, Run, err_class, main_guard, parse_sx, sx, time_limit
import c07_probe as P
import c07_ops as O

DERIVE = ("outOfPlace", "view", "copy", "contiguous")
CHAINS = ["zero_", "add_", "mul_", "apply_", "fill_", "set_", "__setitem__/index"]
POSTS = ["add_td", "iadd_td", "mul_td", "sub_td", "update_", "copy_", "add_alpha_td", "add_scalar", "zero_"]
SECOND = ["permute", "transpose", "__getitem__/basic", "select", "exclude", "clone", "to_tensordict", "flatten_keys", "unsqueeze", "copy",
          "clone/shallow", "detach", "contiguous", "unbind", "split", "view", "__getitem__/advanced", "expand"]
VERIF_DIR = __import__("pathlib").Path(__file__).resolve().parent.parent


def ask_chunked(drv, lines, budget=16000):
    """Driver.ask_many writes a whole chunk before reading; keep each chunk well below the pipe buffer
    (requests and answers of this property are ~1 KB each)"""
    out, cur, size = [], [], 0
    for l in lines:
        if cur and size + len(l) > budget:
            out += drv.ask_many(cur)
            cur, size = [], 0
        cur.append(l)
        size += len(l) + 1
    if cur:
        out += drv.ask_many(cur)
    return out


def api_names():
    from tensordict import TensorDict
    api = [n for n in dir(TensorDict) if not n.startswith("_")]
    du = [n for n in dir(TensorDict) if n.startswith("__") and n.endswith("__") and callable(getattr(TensorDict, n)) and n not in dir(object)]
    du += [n for n in ("__eq__", "__ne__", "__lt__", "__le__", "__gt__", "__ge__", "__setstate__") if n in dir(TensorDict)]
    return sorted(set(api + du))


# ----------------------------------------------------------------------------------------------- preceding history
HIST_FREE = ["iadd", "set_new", "set_", "rename", "delset", "shallow", "apply_", "setitem", "lock_unlock", "update", "fill_", "index_self"]
HIST_LOCKED = ["iadd", "set_", "apply_", "setitem", "fill_", "zero_"]


def apply_history(cont: P.Container, ops, rng):
    td = cont.td
    for op in ops:
        try:
            with time_limit(10):
                ks = [k for k in td.keys() if isinstance(td.get(k), torch.Tensor) and td.get(k).dtype == P.DT]
                k = ks[rng.randrange(len(ks))] if ks else None
                if op == "iadd":
                    td += 1.0
                elif op == "zero_":
                    td.zero_()
                elif op == "set_new":
                    td.set(f"h{rng.randrange(3)}", cont.cnt.take(P._numel(td.batch_size)).reshape(tuple(td.batch_size)))
                elif op == "set_" and k is not None:
                    td.set_(k, torch.full(td.get(k).shape, 4.0, dtype=P.DT))
                elif op == "rename" and k is not None and k not in ("a", "b"):
                    td.rename_key_(k, k + "r")
                elif op == "delset" and k is not None:
                    v = td.get(k)
                    td.del_(k)
                    td.set(k, v.clone() if rng.random() < 0.5 else v)
                elif op == "shallow":
                    if cont.kind in ("regular", "nested", "tensorclass"):
                        cont.td = td = td.clone(False) if rng.random() < 0.5 else td.exclude()
                elif op == "index_self":
                    if cont.kind in ("regular", "nested", "tensorclass"):
                        cont.td = td = td[:] if rng.random() < 0.5 else td.unsqueeze(0).squeeze(0)
                elif op == "apply_":
                    td.apply_(lambda x: x * 2)
                elif op == "setitem":
                    td[0] = td[1] if td.batch_size[0] > 1 else td[0]
                elif op == "lock_unlock":
                    td.lock_()
                    td.unlock_()
                elif op == "update":
                    td.update({kk: td.get(kk) + 1 for kk in ks[:1]})
                elif op == "fill_" and k is not None:
                    td.fill_(k, 2.0)
        except Exception:
            pass  # a history step that the container kind rejects is simply skipped
    return cont


def refresh_provenance(cont: P.Container, extra):
    """make every storage cell behind the container distinct again (a caller-side in-place write)"""
    seen = set()
    for _, t in list(P.leaves_of(cont.td)) + list(extra):
        if t.numel() == 0 or t.dtype != P.DT:
            continue
        st = t.untyped_storage()
        if st.data_ptr() in seen:
            continue
        seen.add(st.data_ptr())
        flat = torch.empty(0, dtype=P.DT).set_(st)
        n = flat.numel()
        with torch.no_grad():
            if n <= 4096:
                flat.copy_(cont.cnt.take(n))
            else:  # large backing storage (e.g. shared arena): refresh only through the window
                t.copy_(cont.cnt.take(t.numel()).reshape(t.shape)) if len(set(P.elem_offsets(t))) == t.numel() else None


# ----------------------------------------------------------------------------------------------- one case
def nonoverlapping(t):
    o = P.elem_offsets(t)
    return len(set(o)) == len(o)


def pokeable(t):
    return isinstance(t, torch.Tensor) and t.dtype == P.DT and t.numel() > 0 and nonoverlapping(t) and (not t.requires_grad or t.is_leaf)



def result_payload(world, prov, src_names, res_leaves, n0, cls):
    """per result leaf: [name, source entry (by value provenance) | None, selector, values, aliased?]"""
    rl, alias_ok = [], {}
    for n, t in res_leaves:
        vals = world.tok.read(t)
        sid = world.sid_of(t, create=False)
        old = sid is not None and sid < n0
        src, sel = None, []
        if vals:
            cands = None
            for v in vals:
                s = set(prov.get(v, {}).keys())
                cands = s if cands is None else (cands & s)
                if not cands:
                    break
            if cands:
                src = n if n in cands else sorted(cands)[0]
                sel = [prov[v][src] for v in vals]
        else:
            src = n if n in src_names else (src_names[0] if src_names else None)
        if cls == "outOfPlace":
            aliased = bool(old and src is not None)
            alias_ok[n] = aliased or not old
        else:
            aliased = False
            alias_ok[n] = True
        rl.append([n, src, sel, vals, aliased])
    return rl, alias_ok


def kind_of(x):
    from tensordict import LazyStackedTensorDict, is_tensorclass
    from tensordict._td import _SubTensorDict
    if isinstance(x, LazyStackedTensorDict):
        return "lazy"
    if isinstance(x, _SubTensorDict):
        return "sub"
    if is_tensorclass(x):
        return "tensorclass"
    return "regular"


class _Pseudo:
    """what a recipe needs from a container, for an operation applied to a previous result"""
    def __init__(self, td, cont):
        self.td, self.cnt, self.kind, self.extra = td, cont.cnt, kind_of(td), []

    @property
    def locked(self):
        return bool(getattr(self.td, "is_locked", False))


class Case:
    pass


def run_case(run: Run, spec, tmp):
    """returns (request line or None, expected states, meta) — model comparison is done in bulk later"""
    kind, layout, hist, opname, variant, seed = spec[:6]
    chain = spec[6] if len(spec) > 6 else None
    rng = __import__("random").Random(seed)
    row = f"{opname}%{kind}" if (f"{opname}%{kind}" in run.classes or f"{opname}%{kind}" in run.deviations) else opname
    cls = run.deviations.get(row) or run.classes.get(row)          # class the code is modelled with
    doc = run.classes.get(row) or run.classes.get(opname)            # class the property / documentation assigns (oracle)
    case = {"kind": kind, "layout": layout, "history": hist, "op": opname, "row": row, "variant": variant, "seed": seed, "class": cls, "doc_class": doc}
    if chain:
        case["chain"] = chain
    if cls in (None, "excluded"):
        return None, None, {"case": case, "status": "excluded"}
    cont = P.Container(kind, layout, rng, tmp=tmp)
    apply_history(cont, hist, rng)
    if getattr(cont, "lazy_shape", None):
        case["lazy_members"] = cont.lazy_shape
    ctx = O.Ctx(cont, rng, variant)
    recipes = O.R[opname]
    recipe = recipes[variant % len(recipes)]
    ctx.vs = variant // len(recipes) if len(recipes) > 1 else variant
    try:
        thunk = recipe(ctx)
    except Exception as e:
        return None, None, {"case": case, "status": "prep-raised:" + err_class(e)}
    post = spec[8] if len(spec) > 8 else None
    post_other = None
    if post and post not in ("add_scalar", "zero_"):
        try:
            post_other = ctx.other()
        except Exception:
            post = None
    refresh_provenance(cont, cont.extra + ctx.args)
    td = cont.td
    world = P.World()
    self0 = P.leaves_of(td)
    handles = []
    for name, t in self0:
        handles.append(("id:" + name, t))
        if t.dim() > 0 and t.shape[0] > 0:
            handles.append(("v:" + name, t[0]))
        if t.dim() > 1 and t.shape[1] > 1:
            handles.append(("w:" + name, t[:, 1:]))
        handles.append(("c:" + name, t.clone()))
    handles += cont.extra
    args = list(ctx.args)
    objs0 = [self0, handles, args]
    # ---- initial abstract state
    descs = [[(n, world.desc(t), world.tok.read(t)) for n, t in ob] for ob in objs0]
    n0 = len(world.sids)
    store = [[] for _ in range(n0)]
    for ob in descs:
        for n, (sid, offs), reads in ob:
            if sid is None:
                continue
            cells = store[sid]
            for o, v in zip(offs, reads):
                if o >= len(cells):
                    cells.extend([0] * (o + 1 - len(cells)))
                cells[o] = v
    init = ["init", ["store"] + store, ["objs"] + [["obj"] + [[n, 0 if sid is None else sid, offs] for n, (sid, offs), _ in ob] for ob in descs]]
    keys0 = sorted(map(str, td.keys(True, True)))
    ptr0 = {n: (t.untyped_storage().data_ptr() if t.numel() else None, P.elem_offsets(t)) for n, t in self0}
    reads0 = {id(ob): None for ob in objs0}
    before = [[world.tok.read(t) for _, t in ob] for ob in objs0]
    # provenance index over the container's own leaves
    prov = {}
    for n, (sid, offs), reads in descs[0]:
        for pos, v in enumerate(reads):
            prov.setdefault(v, {}).setdefault(n, pos)
    # ---- the operation
    try:
        with time_limit(20):
            result = thunk()
    except TimeoutError:
        return None, None, {"case": case, "status": "timeout"}
    except Exception as e:
        return None, None, {"case": case, "status": "raised:" + err_class(e), "msg": str(e)[:120]}
    td = cont.td
    self1 = P.leaves_of(td)
    keys1 = sorted(map(str, td.keys(True, True)))
    objs = [self1, handles, args]
    res_leaves = []
    if cls in DERIVE:
        res_leaves = [] if result is td and cls != "contiguous" and False else P.leaves_of(result)
        objs.append(res_leaves)
    # ---- payload
    writes = [[n, world.tok.read(t)] for n, t in self1] if cls == "inplace" else []
    rl, res_alias_ok = result_payload(world, prov, [m for m, _ in self0], res_leaves, n0, cls)
    # provenance by value needs distinct cell values: entries that cannot have them (bool, or equal values in distinct cells)
    # are judged by the oracle (storage identity) only; their windows are not compared with the model
    amb_src = {n for n, (sid, offs), reads in descs[0] if len(set(reads)) < len(set(offs))}
    amb = {r_[0] for r_ in rl if (r_[1] in amb_src) or (r_[1] is None and r_[3] and any(tt.dtype == torch.bool for nn_, tt in res_leaves if nn_ == r_[0]))}
    struct = []
    struct_ok = True
    fresh_allocs = []
    if cls == "rebind":
        d0 = {n: d for n, d, _ in descs[0]}
        d1 = {n: world.desc(t) for n, t in self1}
        allold = {}
        for oi, ob in enumerate(descs):
            for n, d, _ in ob:
                if d[0] is not None:
                    allold.setdefault((d[0], tuple(d[1])), (oi, n))
        for n, d in d1.items():
            if n in d0 and d0[n] == d:
                continue
            if d[0] is None:
                struct_ok = False
                continue
            hit = allold.get((d[0], tuple(d[1])))
            if hit is None:
                # bound to a tensor nobody held before (the operation converted / copied the value): the model allocates it
                # (a new object holding it) and binds the entry to it
                t_new = dict(self1)[n]
                if d[0] < n0 or len(set(d[1])) != len(d[1]):
                    struct_ok = False      # a new window on an old storage: not expressible
                else:
                    fresh_allocs.append([("f" + str(len(fresh_allocs)), t_new)])
                    struct.append(["alloc", fresh_allocs[-1][0][0], world.tok.read(t_new)])
                    struct.append(["bind", n, 2 + len(fresh_allocs), fresh_allocs[-1][0][0]])
            else:
                struct.append(["bind", n, hit[0], hit[1]])
        for n in d0:           # binds first (a renamed entry is bound from its old name), then the removals
            if n not in d1:
                struct.append(["unbind", n])
    if cls == "rebind":
        # a storage that was MOVED under the tensors the caller holds (share_memory_ relocates the storage of the same tensor
        # objects) is outside the model: addresses of held tensors are constants there
        for (n, t), (n_, d_, _) in zip(handles, descs[1]):
            if t.numel() and world.sid_of(t, create=True) != d_[0]:
                struct_ok = False
                break
    if struct_ok:
        objs += fresh_allocs
    steps = [["op", row, 0, ["w"] + writes, ["r"] + rl, ["s"] + struct]]
    real_states = [[P.canon_real_obj(world, n0, ob) for ob in objs]]
    # ---- chained in-place operation on the result (a tensordict-level write through a view / into a copy)
    chained = False
    lost_update = None
    if chain and (cls in ("view", "copy", "contiguous") or (row in run.deviations and doc in ("view", "copy"))) and res_leaves:
        from tensordict import TensorDictBase, is_tensorclass
        tgt = result
        if isinstance(tgt, (tuple, list)) and tgt:
            tgt = tgt[0]
        if isinstance(tgt, TensorDictBase) or is_tensorclass(tgt):
            try:
                with time_limit(20):
                    if chain == "zero_":
                        tgt.zero_()
                    elif chain == "add_":
                        tgt.add_(1.0)
                    elif chain == "mul_":
                        tgt.mul_(2.0)
                    elif chain == "apply_":
                        tgt.apply_(lambda x: x + 1)
                    elif chain == "fill_":
                        k = [k for k in tgt.keys(True, True) if tgt.get(k).dtype == P.DT][0]
                        tgt.fill_(k, 3.0)
                    elif chain == "set_":
                        k = [k for k in tgt.keys(True, True) if tgt.get(k).dtype == P.DT][0]
                        tgt.set_(k, torch.full(tgt.get(k).shape, 5.0, dtype=P.DT))
                    elif chain == "__setitem__/index":
                        tgt[...] = 7.0
                chained = True
            except Exception as e:
                # e.g. in-place on an expanded result: torch refuses, possibly after having written some entries
                # (partial effect of a raising op is not modelled): the case ends here
                return None, None, {"case": case, "status": "chain-raised:" + err_class(e), "msg": str(e)[:120]}
            if chained and chain in ("zero_", "__setitem__/index"):
                # the in-place operation must at least be visible through the tensordict it was called on
                want = 0.0 if chain == "zero_" else 7.0
                stale = [n for n, t in P.leaves_of(tgt) if t.dtype == P.DT and t.numel() and not bool((t == want).all())]
                if stale:
                    lost_update = f"{chain} on the result had no effect on its entries {stale[:3]}"
            if chained:
                res_after = P.leaves_of(result)
                if [n for n, _ in res_after] != [n for n, _ in res_leaves]:
                    chained = False
                else:
                    steps.append(["op", chain, 3, ["w"] + [[n, world.tok.read(t)] for n, t in res_after], ["r"], ["s"]])
                    real_states.append([P.canon_real_obj(world, n0, ob) for ob in objs])
    # ---- an in-place operation on the CONTAINER after the out-of-place / copy operation (memoised reads of a locked
    #      container must still address the container's own tensors): expected values by torch on the handles held before
    posted = False
    post_verdict = None
    if post and not chain and cls in ("outOfPlace", "copy", "view", "contiguous") and keys0 == keys1 and all(t.dtype == P.DT for _, t in self0):
        hmap = dict(self0)
        omap = dict(P.leaves_of(post_other)) if post_other is not None else {}
        fl = [(n, t) for n, t in self0 if t.dtype == P.DT]
        if all(nonoverlapping(t) for _, t in fl) and (post_other is None or all(n in omap for n, _ in fl)):
            expect = {}
            for n, t in self0:
                h = t.detach().clone()
                if t.dtype == P.DT and t.numel():
                    if post in ("add_td", "iadd_td"):
                        h = h + omap[n]
                    elif post == "add_alpha_td":
                        h = h + 2.0 * omap[n]
                    elif post == "mul_td":
                        h = h * omap[n]
                    elif post == "sub_td":
                        h = h - omap[n]
                    elif post in ("update_", "copy_"):
                        h = omap[n].clone()
                    elif post == "add_scalar":
                        h = h + 1.5
                    elif post == "zero_":
                        h = h * 0.0
                expect[n] = h
            try:
                with time_limit(20):
                    tdp = cont.td
                    if post == "add_td":
                        tdp.add_(post_other)
                    elif post == "iadd_td":
                        tdp += post_other
                    elif post == "add_alpha_td":
                        tdp.add_(post_other, alpha=2.0)
                    elif post == "mul_td":
                        tdp.mul_(post_other)
                    elif post == "sub_td":
                        tdp.sub_(post_other)
                    elif post == "update_":
                        tdp.update_(post_other)
                    elif post == "copy_":
                        tdp.copy_(post_other)
                    elif post == "add_scalar":
                        tdp.add_(1.5)
                    elif post == "zero_":
                        tdp.zero_()
            except Exception as e:
                return None, None, {"case": case, "status": "post-raised:" + err_class(e), "msg": str(e)[:120]}
            steps.append(["op", "add_", 0, ["w"] + [[n, world.tok.read(expect[n])] for n, _ in self0], ["r"], ["s"]])
            real_states.append([P.canon_real_obj(world, n0, ob) for ob in objs])
            case["post"] = post
            posted = True
            bad = [n for n, t in self0 if t.numel() and not torch.equal(t.detach(), expect[n])]
            if bad:
                post_verdict = f"{post} after {opname}: tensors obtained before do not hold the new values (entries {bad[:3]})"
            elif cls in ("outOfPlace", "copy") and len(real_states) >= 2 and len(real_states[-1]) > 3:
                # result entries that live in storages of their own (no aliasing with anything held) must not move
                was = {l[0]: l for l in real_states[-2][3] if l[1] == "new"}
                moved = [l[0] for l in real_states[-1][3] if l[0] in was and l != was[l[0]]]
                if opname.startswith("memmap"):
                    moved = []      # a second mapping of the same file aliases through the file system: outside the storage abstraction
                if moved:
                    post_verdict = f"{post} on the tensordict after {opname} modified the (un-aliased) tensors of the earlier result {moved[:3]}"
    # ---- a second public operation applied to the result (view of a view, copy of a view, view of a copy ...)
    op2 = spec[7] if len(spec) > 7 else None
    res2_leaves, doc2, second = [], None, False
    if op2 and not chain and cls in ("view", "copy", "contiguous") and res_leaves and op2 in O.R:
        from tensordict import TensorDictBase, is_tensorclass
        tgt = result
        if isinstance(tgt, (tuple, list)) and tgt:
            tgt = tgt[0]
        if isinstance(tgt, TensorDictBase) or is_tensorclass(tgt):
            pc = _Pseudo(tgt, cont)
            row2 = f"{op2}%{pc.kind}" if (f"{op2}%{pc.kind}" in run.classes or f"{op2}%{pc.kind}" in run.deviations) else op2
            cls2 = run.deviations.get(row2) or run.classes.get(row2)
            doc2 = run.classes.get(row2) or run.classes.get(op2)
            if cls2 in ("view", "copy", "contiguous") and isinstance(result, (TensorDictBase,)) or (cls2 in ("view", "copy", "contiguous") and is_tensorclass(result)):
                ctx2 = O.Ctx(pc, rng, variant)
                rec2 = O.R[op2]
                try:
                    with time_limit(20):
                        r2 = rec2[variant % len(rec2)](ctx2)()
                    ok2 = not ctx2.args
                except Exception:
                    ok2 = False
                if ok2:
                    # provenance by value needs distinct cells: a copy that duplicated elements (td[[0, 0]], repeat) cannot be followed
                    for n, t in res_leaves:
                        rd_ = world.tok.read(t)
                        if len(set(rd_)) != len(rd_) and len(set(P.elem_offsets(t))) == len(rd_):
                            ok2 = False
                if ok2:
                    prov2 = {}
                    for n, t in res_leaves:
                        for pos, v in enumerate(world.tok.read(t)):
                            prov2.setdefault(v, {}).setdefault(n, pos)
                    res2_leaves = P.leaves_of(r2)
                    rl2, _ = result_payload(world, prov2, [m for m, _ in res_leaves], res2_leaves, n0, cls2)
                    objs.append(res2_leaves)
                    steps.append(["op", row2, 3, ["w"], ["r"] + rl2, ["s"]])
                    real_states.append([P.canon_real_obj(world, n0, ob) for ob in objs])
                    case["op2"] = row2
                    second = True
    # ---- sentinel writes
    poke_base = len(real_states) - 1
    pokes = []
    targets = []
    if cls in ("view", "copy", "contiguous"):
        targets += [(3, n, t) for n, t in res_leaves if pokeable(t)][:2]
    if second:
        targets += [(4, n, t) for n, t in res2_leaves if pokeable(t)][:2]
    targets += [(0, n, t) for n, t in self1 if pokeable(t)][:2]
    if cont.kind == "sub":
        targets += [(1, n, t) for n, t in cont.extra if pokeable(t)][:1]
    sentinel = -1000.0
    for oi, n, t in targets:
        vals = torch.arange(t.numel(), dtype=P.DT).mul_(-1).add_(sentinel).reshape(t.shape)
        sentinel -= 1000.0
        try:
            with torch.no_grad():
                t.copy_(vals)
        except Exception as e:
            continue
        toks = world.tok.read(vals)
        steps.append(["poke", oi, n, toks])
        real_states.append([P.canon_real_obj(world, n0, ob) for ob in objs])
        pokes.append((oi, n, set(toks)))
    # ---- the property oracle on the real observations
    after = [[world.tok.read(t) for _, t in ob] for ob in objs0]   # reads of the ORIGINAL tensor objects (after pokes too, so use the first state)
    st1 = real_states[0]
    verdicts = []
    ocls = doc      # the oracle judges by the class the property / documentation assigns, not by how the code is modelled
    def rd(state, oi):
        return {leaf[0]: leaf for leaf in state[oi]}
    h1 = rd(st1, 1)
    if ocls == "inplace":
        if keys0 != keys1:
            verdicts.append(f"in-place op changed the key set {keys0} -> {keys1}")
        s1 = rd(st1, 0)
        for n, t in self0:
            cur = s1.get(n)
            hid = h1.get("id:" + n)
            if cur is None:
                verdicts.append(f"entry {n} disappeared")
                continue
            if cur != [n] + hid[1:]:
                verdicts.append(f"entry {n}: tensor obtained before the in-place op no longer is the entry (handle {hid[1:]}, entry {cur[1:]})")
    else:
        # nothing the caller held may change
        for oi, ob in enumerate(objs0):
            if oi == 0 and ocls == "rebind":
                pass
            for (n, t), b in zip(ob, before[oi]):
                pass
        held_before = {("h", n): r for (n, _), r in zip(handles, before[1])}
        held_before.update({("a", n): r for (n, _), r in zip(args, before[2])})
        for (n, _) in handles:
            leaf = h1.get(n)
            now = [] if leaf[1] == "empty" else leaf[-1]
            if now != held_before[("h", n)]:
                verdicts.append(f"{ocls} op modified tensor {n} held by the caller")
        a1 = rd(st1, 2)
        for (n, _) in args:
            leaf = a1.get(n)
            now = [] if leaf[1] == "empty" else leaf[-1]
            if now != held_before[("a", n)]:
                verdicts.append(f"{ocls} op modified argument tensor {n}")
        if ocls in ("outOfPlace", "view", "copy", "contiguous", "query") and keys0 != keys1:
            verdicts.append(f"{ocls} op changed the key set of its input {keys0} -> {keys1}")
    if ocls in ("view", "copy", "contiguous"):
        self_ptrs = {}
        for n, t in self0:
            if t.numel():
                self_ptrs.setdefault(t.untyped_storage().data_ptr(), []).append(n)
        for n, t in res_leaves:
            if t.numel() == 0:
                continue
            shares = world.sid_of(t, create=False) in {world.sid_of(tt, create=False) for _, tt in list(self0) + list(cont.extra) if tt.numel()}   # storage identity: address, or file for memory-mapped tensors
            if ocls == "view" and not shares:
                verdicts.append(f"view op returned entry {n} in a storage of its own (copied)")
            if ocls == "copy" and shares:
                verdicts.append(f"copy op returned entry {n} sharing the source's storage")
        # sentinel evidence
        for i, (oi, n, toks) in enumerate(pokes):
            stp = real_states[poke_base + i + 1]
            prev = real_states[poke_base + i]
            if oi == 3:
                seen = set()
                for leaf in stp[0] + stp[1]:
                    if leaf[1] != "empty":
                        seen |= set(leaf[-1])
                if ocls == "view" and not (toks <= seen):
                    verdicts.append(f"sentinel written through result entry {n} is not read through the source")
                if ocls == "copy" and (toks & seen):
                    verdicts.append(f"sentinel written through result entry {n} of a copy is read through the source")
            elif oi == 0 and ocls == "copy":
                seen = set()
                for leaf in stp[3]:
                    if leaf[1] != "empty":
                        seen |= set(leaf[-1])
                if toks & seen:
                    verdicts.append(f"sentinel written through source entry {n} is read through the copy")
    if second and ocls in ("view", "copy") and doc2 in ("view", "copy"):
        shares_expected = ocls == "view" and doc2 == "view"
        for i, (oi, n, toks) in enumerate(pokes):
            if oi != 4:
                continue
            stp = real_states[poke_base + i + 1]
            seen = set()
            for leaf in stp[0] + stp[1]:
                if leaf[1] != "empty":
                    seen |= set(leaf[-1])
            if shares_expected and not (toks <= seen):
                verdicts.append(f"sentinel written through a view ({case['op2']}) of a view is not read through the source")
            if not shares_expected and (toks & seen):
                verdicts.append(f"sentinel written through the result of {case['op2']} after a {ocls} op is read through the source")
    if post_verdict:
        verdicts.append(post_verdict)
    if lost_update:
        verdicts.append(lost_update)
    if chained and ocls in ("view", "copy"):
        st_op, st_ch = real_states[0], real_states[1]
        def toks_of(state, ois):
            out = set()
            for oi in ois:
                for leaf in state[oi]:
                    if leaf[1] != "empty":
                        out |= set(leaf[-1])
            return out
        if ocls == "view" and not (toks_of(st_ch, [3]) <= toks_of(st_ch, [0, 1])):
            verdicts.append(f"{chain} on the result of a view op is not observed through the source")
        if ocls == "copy" and [l for l in st_ch[0] + st_ch[1]] != [l for l in st_op[0] + st_op[1]]:
            verdicts.append(f"{chain} on the result of a copy op changed tensors of the source")
    if ocls == "contiguous":
        srcmap = dict(self0)
        for n, t in res_leaves:
            s = srcmap.get(n)
            if s is None or s.numel() == 0:
                continue
            same = world.sid_of(t, create=False) == world.sid_of(s, create=False)
            if same != bool(s.is_contiguous()):
                verdicts.append(f"contiguous(): entry {n} contiguous={s.is_contiguous()} but shares={same}")
    req = sx("c07.run", init, ["steps"] + steps)
    meta = {"case": case, "status": "ok", "verdicts": verdicts, "n_pokes": len(pokes), "chained": chained, "second": second, "posted": posted, "deviation": row in run.deviations, "struct_ok": struct_ok,
            "amb": sorted(amb) if (amb or amb_src) else [], "amb_src": bool(amb_src), "n_self": len(self0), "n_res": len(res_leaves), "alias_ok": all(res_alias_ok.values()) if res_alias_ok else True}
    return req, real_states, meta


def mask_states(states, meta, cls):
    """what is not compared: result windows of out-of-place ops that alias something outside the container"""
    return states



def setstr_stream(run, drv):
    """the write entry point: td.set(k, v) / td.set(k, v, inplace=True) / td.set_(k, v) on existing / missing keys,
    locked / unlocked tensordicts, copy-compatible / incompatible values — outcome (bindings + reads, or error class)
    vs Model `setStr`"""
    from tensordict import TensorDict
    rng = run.rng
    reqs, exps, cases = [], [], []
    n = 150 if run.tier == "quick" else 1500
    for it in range(n):
        cnt = P.Counter()
        layout = rng.choice(["contiguous", "strided", "offset"])
        td = TensorDict({"a": P.make_leaf((2, 3), layout, cnt), "b": P.make_leaf((2, 3, 2), layout, cnt)}, batch_size=[2, 3])
        locked = rng.random() < 0.4
        mode = rng.choice(["no", "yes", "best"])
        key = rng.choice(["a", "b", "zz"])
        good = rng.random() < 0.75
        shape = tuple(td.get(key).shape) if key in td.keys() else (2, 3, 4)
        if not good:
            shape = shape + (3,) if len(shape) == 2 else shape[:-1] + (shape[-1] + 1,)
        v = cnt.take(P._numel(shape)).reshape(shape) + 0.5
        if locked:
            td.lock_()
        world = P.World()
        objs0 = [P.leaves_of(td), [("v", v)]]
        descs = [[(nm, world.desc(t), world.tok.read(t)) for nm, t in ob] for ob in objs0]
        n0 = len(world.sids)
        store = [[] for _ in range(n0)]
        for ob in descs:
            for nm, (sid, offs), reads in ob:
                cells = store[sid]
                for o, val in zip(offs, reads):
                    if o >= len(cells):
                        cells.extend([0] * (o + 1 - len(cells)))
                    cells[o] = val
        init = ["init", ["store"] + store, ["objs"] + [["obj"] + [[nm, sid, offs] for nm, (sid, offs), _ in ob] for ob in descs]]
        vals = world.tok.read(v)
        try:
            with time_limit(10):
                if mode == "no":
                    td.set(key, v)
                elif mode == "best":
                    td.set(key, v, inplace=True)
                else:
                    td.set_(key, v)
            impl = ["ok", [P.canon_real_obj(world, n0, P.leaves_of(td)), P.canon_real_obj(world, n0, [("v", v)])]]
        except Exception as e:
            impl = ["err", err_class(e)]
        case = {"layout": layout, "locked": locked, "mode": mode, "key": key, "compatible_value": good}
        run.case(("setstr", it, str(case)), nontrivial=True)
        run.count("setstr.outcome", impl[0] if impl[0] == "ok" else "err:" + impl[1])
        reqs.append(sx("c07.setstr", init, locked, mode, key, 1, "v", vals))
        exps.append(impl)
        cases.append(case)
        # oracle: the documented in-place spellings never rebind, a locked tensordict never changes its bindings
        if impl[0] == "ok":
            now = {nm: t for nm, t in P.leaves_of(td)}
            was = {nm: t for nm, t in objs0[0]}
            if (mode == "yes" or (mode == "best" and key in was)) and now.get(key) is not was.get(key):
                run.oracle_fail("setstr", case, "in-place set replaced the entry instead of writing into it", fingerprint="setstr_rebound")
            elif locked and any(now.get(kk) is not was.get(kk) for kk in set(now) | set(was)):
                run.oracle_fail("setstr", case, "bindings of a locked tensordict changed", fingerprint="setstr_locked")
            else:
                run.oracle_ok("setstr")
        else:
            run.oracle_ok("setstr")
    for case, impl, a in zip(cases, exps, ask_chunked(drv, reqs)):
        a = parse_sx(a)
        model = ["ok", [P.canon_model_obj(ob) for ob in a[1][1:]]] if a[0] == "ok" else ["err", str(a[1])]
        run.corr("set_str", case, impl, model)



def index_stream(run, drv):
    """td[index] for random index tuples from the grammar {int, slice, None, ..., 0-d int tensor | list, tensor, mask, range, ndarray}:
    does every result entry share the source's storage?  vs Model `indexClass` (view / copy)"""
    import numpy as np
    from tensordict import TensorDict
    rng = run.rng
    n = 300 if run.tier == "quick" else 3000
    reqs, obs, cases = [], [], []
    for it in range(n):
        bs = rng.choice([(2, 3), (3, 2), (2, 3, 2), (4,)])
        cnt = P.Counter()
        td = TensorDict({"a": P.make_leaf(bs, "contiguous", cnt), "b": P.make_leaf(tuple(bs) + (2,), rng.choice(["contiguous", "strided", "offset"]), cnt)}, batch_size=bs)
        items, kinds = [], []
        dim = 0
        used_ellipsis = False
        adv = 0
        for _ in range(rng.randint(1, len(bs) + 1)):
            k = rng.choice(["int", "slice", "none", "ellipsis", "int0d", "list", "tensor", "mask", "range", "array"])
            if k == "ellipsis":
                if used_ellipsis:
                    continue
                used_ellipsis = True
                items.append(Ellipsis); kinds.append(k)
                dim = len(bs)      # anything after `...` would address trailing dims: stop consuming
                break
            if k == "none":
                items.append(None); kinds.append(k)
                continue
            if dim >= len(bs):
                break
            size = bs[dim]
            if k == "int":
                items.append(rng.randrange(-size, size))
            elif k == "slice":
                items.append(rng.choice([slice(None), slice(0, 1), slice(1, None), slice(None, None, 2), slice(0, 0)]))
            elif k == "int0d":
                items.append(torch.tensor(rng.randrange(size)))
            elif k == "list":
                items.append([rng.randrange(size) for _ in range(rng.randint(1, 2))])
            elif k == "tensor":
                items.append(torch.tensor([rng.randrange(size) for _ in range(rng.randint(1, 2))]))
            elif k == "mask":
                items.append(torch.tensor([rng.random() < 0.6 for _ in range(size)]))
            elif k == "range":
                items.append(range(0, size))
            elif k == "array":
                items.append(np.array([rng.randrange(size)]))
            if k in ("list", "tensor", "mask", "range", "array"):
                adv += 1
                if adv > 1:          # several advanced items broadcast together: keep them compatible by stopping here
                    items.pop(); break
            kinds.append(k)
            dim += 1
        if not items:
            continue
        idx = items[0] if len(items) == 1 and rng.random() < 0.5 else tuple(items)
        try:
            with time_limit(10):
                r = td[idx]
        except Exception as e:
            run.count("index.outcome", "raised")
            continue
        src = {t.untyped_storage().data_ptr() for _, t in P.leaves_of(td)}
        leaves = [(nm, t) for nm, t in P.leaves_of(r) if t.numel() > 0]
        if not leaves:
            run.count("index.outcome", "empty-result")
            continue
        sh = [t.untyped_storage().data_ptr() in src for _, t in leaves]
        observed = "view" if all(sh) else ("copy" if not any(sh) else "mixed")
        case = {"batch": list(bs), "items": kinds, "tuple": isinstance(idx, tuple)}
        run.case(("index", it, str(case)), nontrivial=True)
        run.count("index.outcome", observed)
        for k in kinds:
            run.count("index.item", k)
        reqs.append(sx("c07.index_class", ["newaxis" if k == "none" else k for k in kinds]))
        obs.append(observed)
        cases.append(case)
        # property oracle: basic indexing shares, advanced indexing never does
        basic = all(k in ("int", "slice", "none", "ellipsis", "int0d") for k in kinds)
        if basic and observed != "view":
            run.oracle_fail("index", case, f"basic index returned entries in their own storage ({observed})", fingerprint="index_basic_copied")
        elif not basic and observed != "copy":
            run.oracle_fail("index", case, f"advanced index returned entries sharing the source ({observed})", fingerprint="index_advanced_shares")
        else:
            run.oracle_ok("index")
    for case, o, a in zip(cases, obs, ask_chunked(drv, reqs)):
        run.corr("index_class", case, o, a.strip())



def subwindow_stream(run, drv):
    """sub-tensordict windows taken with every kind of index (int-free: list / range / numpy array / index tensor / mask /
    slice / tuple mixes) x indexed in-place writes (set_at_, update_at_, sub[i] = td, fill_, set_) : the SOURCE tensors the
    caller obtained before must observe exactly the write torch's index_put semantics prescribes.  Model: the window's
    entries are views (selectors) of the source leaves, the write is an in-place step of the table class."""
    import numpy as np
    from tensordict import TensorDict
    rng = run.rng
    n = 220 if run.tier == "quick" else 2200
    reqs, exps, cases = [], [], []
    for it in range(n):
        cnt = P.Counter()
        layout = rng.choice(["contiguous", "strided", "offset"])
        td = TensorDict({"a": P.make_leaf((4, 3), layout, cnt), "n": TensorDict({"b": P.make_leaf((4, 2), layout, cnt)}, batch_size=[4])}, batch_size=[4])
        wkind = rng.choice(["list", "range", "array", "tensor", "mask", "slice", "list", "range", "array"])
        rows = sorted(rng.sample(range(4), rng.randint(2, 3)))
        if rng.random() < 0.5:
            rng.shuffle(rows)
        if wkind == "list":
            window = list(rows)
        elif wkind == "range":
            start = rng.randrange(0, 2)
            window = range(start, start + rng.randint(2, 3))
            rows = list(window)
        elif wkind == "array":
            window = np.array(rows)
        elif wkind == "tensor":
            window = torch.tensor(rows)
        elif wkind == "mask":
            rows = sorted(rows)
            window = torch.tensor([r_ in rows for r_ in range(4)])
        else:
            start = rng.randrange(0, 2)
            window = slice(start, start + rng.randint(2, 3))
            rows = list(range(4))[window]
        op = rng.choice(["set_at_", "update_at_", "__setitem__/index", "set_at_", "update_at_", "__setitem__/index", "fill_", "set_"])
        key = rng.choice(["a", ("n", "b")])
        i = rng.choice([0, 1, -1, slice(0, 1), slice(None)])
        held = {"a": td["a"], "n.b": td["n", "b"]}
        keys0 = sorted(map(str, td.keys(True, True)))
        world = P.World()
        names = ["a", "n.b"]
        descs = {nm: (world.desc(held[nm]), world.tok.read(held[nm])) for nm in names}
        n0 = len(world.sids)
        store = [[] for _ in range(n0)]
        for nm in names:
            (sid, offs), reads = descs[nm]
            cells = store[sid]
            for o_, v_ in zip(offs, reads):
                if o_ >= len(cells):
                    cells.extend([0] * (o_ + 1 - len(cells)))
                cells[o_] = v_
        # the window's entries as selectors of the source entries: index the offsets with the same window index
        wobj = []
        for nm in names:
            t = held[nm]
            offs_t = torch.tensor(P.elem_offsets(t)).reshape(t.shape)
            wobj.append([nm, descs[nm][0][0], offs_t[window if not isinstance(window, range) else list(window)].reshape(-1).tolist()])
        init = ["init", ["store"] + store, ["objs", ["obj"] + wobj, ["obj"] + [["id:" + nm, descs[nm][0][0], descs[nm][0][1]] for nm in names]]]
        case = {"layout": layout, "window": wkind, "rows": list(rows), "op": op, "key": key if isinstance(key, str) else ".".join(key), "index": str(i)}
        # expected window values by torch's own semantics on clones
        exp_win = {nm: held[nm][window if not isinstance(window, range) else list(window)].clone() for nm in names}
        kname = case["key"]
        try:
            with time_limit(20):
                sub = td._get_sub_tensordict(window)
                if op == "set_at_":
                    v = cnt.take(exp_win[kname][i].numel()).reshape(exp_win[kname][i].shape) + 0.5
                    sub.set_at_(key, v, i)
                    exp_win[kname][i] = v
                elif op in ("update_at_", "__setitem__/index"):
                    va = cnt.take(exp_win["a"][i].numel()).reshape(exp_win["a"][i].shape) + 0.5
                    vb = cnt.take(exp_win["n.b"][i].numel()).reshape(exp_win["n.b"][i].shape) + 0.5
                    val = TensorDict({"a": va, "n": TensorDict({"b": vb}, batch_size=va.shape[:va.dim() - 1])}, batch_size=va.shape[:va.dim() - 1])
                    if op == "update_at_":
                        sub.update_at_(val, i)
                    else:
                        sub[i] = val
                    exp_win["a"][i] = va
                    exp_win["n.b"][i] = vb
                elif op == "fill_":
                    sub.fill_(key, 3.0)
                    exp_win[kname].fill_(3.0)
                else:
                    v = cnt.take(exp_win[kname].numel()).reshape(exp_win[kname].shape) + 0.5
                    sub.set_(key, v)
                    exp_win[kname] = v
        except Exception as e:
            run.count("subwindow.outcome", "raised:" + err_class(e))
            continue
        run.case(("subwindow", it, str(case)), nontrivial=True)
        run.count("subwindow.outcome", "ok")
        run.count("subwindow.window", wkind)
        run.count("subwindow.op", op)
        # oracle: the tensors obtained before observe the write; key set and bindings unchanged
        what = []
        if sorted(map(str, td.keys(True, True))) != keys0:
            what.append("key set of the source changed")
        if td["a"] is not held["a"] or td["n", "b"] is not held["n.b"]:
            what.append("the source entry was rebound")
        widx = window if not isinstance(window, range) else list(window)
        for nm in names:
            want = held[nm].clone()          # NB: clone of the CURRENT tensor, then overwrite the window rows with the expectation
            want[widx] = exp_win[nm]
            if not torch.equal(held[nm][widx], exp_win[nm]):
                what.append(f"entry {nm}: the tensor held before the write does not show the written values in rows {list(rows)}")
        if what:
            run.oracle_fail("subwindow", case, "; ".join(what[:2]), fingerprint=f"subwindow|{wkind}|{op}")
        else:
            run.oracle_ok("subwindow")
        writes = [[nm, world.tok.read(exp_win[nm])] for nm in names]
        reqs.append(sx("c07.run", init, ["steps", ["op", "set_at_" if op in ("set_at_", "update_at_", "__setitem__/index") else op, 0, ["w"] + writes, ["r"], ["s"]]]))
        exps.append([[nm, world.tok.read(held[nm])] for nm in names])
        cases.append(case)
    for case, e, a in zip(cases, exps, ask_chunked(drv, reqs)):
        a = parse_sx(a)
        if a[0] != "ok":
            run.corr("subwindow(write-through)", case, "ok", a)
            continue
        model = [[str(l[0])[3:], l[3]] for l in a[1][2][1:]]      # object 1 = the source handles id:<name>
        run.corr("subwindow(write-through)", case, e, model)



def update_stream(run, drv):
    """td.update_(src) for sources whose key set is a subset of / overlaps / is disjoint from the destination's (nested keys
    included), locked or not: outcome (values read through the handles held before, or KeyError) vs Model `updateInplace`"""
    from tensordict import TensorDict
    rng = run.rng
    n = 120 if run.tier == "quick" else 1200
    reqs, exps, cases = [], [], []
    for it in range(n):
        cnt = P.Counter()
        layout = rng.choice(["contiguous", "strided", "offset"])
        td = TensorDict({"a": P.make_leaf((2, 3), layout, cnt), "b": P.make_leaf((2, 3, 2), layout, cnt),
                         "n": TensorDict({"x": P.make_leaf((2, 3), layout, cnt)}, batch_size=[2, 3])}, batch_size=[2, 3])
        if rng.random() < 0.4:
            td.lock_()
        shapes = {"a": (2, 3), "b": (2, 3, 2), "n.x": (2, 3), "zz": (2, 3), "n.y": (2, 3)}
        ks = rng.sample(["a", "b", "n.x", "zz", "n.y"], rng.randint(0, 4))
        src = {}
        for k in ks:
            v = cnt.take(P._numel(shapes[k])).reshape(shapes[k]) + 0.5
            if "." in k:
                src.setdefault("n", {})[k.split(".")[1]] = v
            else:
                src[k] = v
        src_td = TensorDict(src, batch_size=[2, 3])
        held = dict(P.leaves_of(td))
        world = P.World()
        names = list(held)
        descs = {nm: (world.desc(held[nm]), world.tok.read(held[nm])) for nm in names}
        n0 = len(world.sids)
        store = [[] for _ in range(n0)]
        for nm in names:
            (sid, offs), reads = descs[nm]
            cells = store[sid]
            for o_, v_ in zip(offs, reads):
                if o_ >= len(cells):
                    cells.extend([0] * (o_ + 1 - len(cells)))
                cells[o_] = v_
        init = ["init", ["store"] + store, ["objs", ["obj"] + [[nm, descs[nm][0][0], descs[nm][0][1]] for nm in names]]]
        srcl = [[nm, world.tok.read(t)] for nm, t in P.leaves_of(src_td)]
        keys0 = sorted(map(str, td.keys(True, True)))
        try:
            with time_limit(10):
                td.update_(src_td)
            impl = ["ok", [[nm, world.tok.read(held[nm])] for nm in names]]
        except KeyError:
            impl = ["err", "key"]
        except Exception as e:
            run.count("update_.outcome", "raised:" + err_class(e))
            continue
        case = {"layout": layout, "locked": td.is_locked, "source_keys": sorted(ks)}
        run.case(("update_", it, str(case)), nontrivial=bool(ks))
        run.count("update_.outcome", impl[0])
        if sorted(map(str, td.keys(True, True))) != keys0 or any(t is not held[nm] for nm, t in P.leaves_of(td)):
            run.oracle_fail("update_", case, "update_ changed the key set or rebound an entry", fingerprint="update_rebound")
        else:
            run.oracle_ok("update_")
        reqs.append(sx("c07.update_", init, srcl))
        exps.append(impl)
        cases.append(case)
    for case, e, a in zip(cases, exps, ask_chunked(drv, reqs)):
        a = parse_sx(a)
        model = ["ok", [[str(l[0]), l[3]] for l in a[1][1][1:]]] if a[0] == "ok" else ["err", "key"]
        run.corr("update_", case, e, model)



def alias_value_stream(run, drv):
    """in-place writes whose VALUE lives in the destination's own buffer: another (disjoint) window, an overlapping slice, an
    expanded row, a transposed view of the same / of another window — `buf[:3].set_(k, buf[3:][k])`, update_, copy_, apply_,
    set(inplace=True), index assignment.  Expected buffer content: torch's own `dst.copy_(src)` on an identically laid out twin.
    Model: the destination's entries are selectors of the buffer's leaves, the write is an in-place step."""
    from tensordict import TensorDict
    rng = run.rng
    n = 160 if run.tier == "quick" else 1600
    reqs, exps, cases = [], [], []

    def build(layout):
        cnt = P.Counter()
        return TensorDict({"a": P.make_leaf((6, 3), layout, cnt), "n": TensorDict({"b": P.make_leaf((6, 2), layout, cnt)}, batch_size=[6])}, batch_size=[6])

    def views(buf, kind):
        """(destination tensordict view, value tensordict view) inside `buf`"""
        if kind == "disjoint":
            return buf[:3], buf[3:]
        if kind == "overlap":
            return buf[0:4], buf[2:6]
        if kind == "expanded_row":
            return buf[:3], buf[5:6].expand(3)
        if kind == "same_window":
            return buf[1:4], buf[1:4]
        raise KeyError(kind)

    for it in range(n):
        layout = rng.choice(["contiguous", "strided", "offset"])
        kind = rng.choice(["disjoint", "overlap", "expanded_row", "same_window", "transposed_other", "transposed_same"])
        op = rng.choice(["set_", "set/inplace", "update_", "copy_", "apply_", "__setitem__/index", "update/inplace"])
        buf, twin = build(layout), build(layout)
        if kind.startswith("transposed"):
            # key-level only: the (3, 3) window of entry `a`, value = a transposed view of the same / of the other window
            op = rng.choice(["set_", "set/inplace"])
            dest, tdest = buf[:3], twin[:3]
            val_t = (buf[:3]["a"] if kind == "transposed_same" else buf[3:]["a"]).t()
            tval_t = (twin[:3]["a"] if kind == "transposed_same" else twin[3:]["a"]).t()
            val = tval = None
        else:
            dest, val = views(buf, kind)
            tdest, tval = views(twin, kind)
            val_t = tval_t = None
        held = {"a": buf["a"], "n.b": buf["n", "b"]}
        names = ["a", "n.b"]
        world = P.World()
        descs = {nm: (world.desc(held[nm]), world.tok.read(held[nm])) for nm in names}
        n0 = len(world.sids)
        store = [[] for _ in range(n0)]
        for nm in names:
            (sid, offs), reads = descs[nm]
            cells = store[sid]
            for o_, v_ in zip(offs, reads):
                if o_ >= len(cells):
                    cells.extend([0] * (o_ + 1 - len(cells)))
                cells[o_] = v_
        dleaves = dict(P.leaves_of(dest))
        init = ["init", ["store"] + store, ["objs", ["obj"] + [[nm, world.sid_of(dleaves[nm]), P.elem_offsets(dleaves[nm])] for nm in names],
                                                    ["obj"] + [["id:" + nm, descs[nm][0][0], descs[nm][0][1]] for nm in names]]]
        keys = ["a"] if (op in ("set_", "set/inplace")) else names
        key = "a"
        case = {"layout": layout, "value": kind, "op": op}
        keys0 = sorted(map(str, buf.keys(True, True)))
        try:
            with time_limit(20), torch.no_grad():
                # torch's own semantics on the twin
                tl, tv = dict(P.leaves_of(tdest)), (dict(P.leaves_of(tval)) if tval is not None else {"a": tval_t})
                for k in keys:
                    tl[k].copy_(tv[k])
                if op == "set_":
                    dest.set_(key, val_t if val_t is not None else val.get(key))
                elif op == "set/inplace":
                    dest.set(key, val_t if val_t is not None else val.get(key), inplace=True)
                elif op == "update_":
                    dest.update_(val)
                elif op == "update/inplace":
                    dest.update(val, inplace=True)
                elif op == "copy_":
                    dest.copy_(val)
                elif op == "apply_":
                    dest.apply_(lambda x, y: y, val)
                else:
                    dest[...] = val
        except Exception as e:
            run.count("alias_value.outcome", "raised:" + err_class(e))
            continue
        run.case(("alias_value", it, str(case)), nontrivial=kind != "same_window")
        run.count("alias_value.outcome", "ok")
        run.count("alias_value.kind", kind)
        run.count("alias_value.op", op)
        theld = {"a": twin["a"], "n.b": twin["n", "b"]}
        what = []
        if sorted(map(str, buf.keys(True, True))) != keys0 or buf["a"] is not held["a"] or buf["n", "b"] is not held["n.b"]:
            what.append("key set changed or an entry was rebound")
        for nm in names:
            if not torch.equal(held[nm], theld[nm]):
                what.append(f"entry {nm}: the buffer tensor held before does not hold what dst.copy_(src) gives (the write was dropped or misplaced)")
        if what:
            run.oracle_fail("alias_value", case, "; ".join(what[:2]), fingerprint=f"alias_value|{kind}|{op}")
        else:
            run.oracle_ok("alias_value")
        tdl = dict(P.leaves_of(tdest))
        writes = [[nm, world.tok.read(tdl[nm])] for nm in names]
        reqs.append(sx("c07.run", init, ["steps", ["op", "set_", 0, ["w"] + writes, ["r"], ["s"]]]))
        exps.append([[nm, world.tok.read(held[nm])] for nm in names])
        cases.append(case)
    for case, e, a in zip(cases, exps, ask_chunked(drv, reqs)):
        a = parse_sx(a)
        if a[0] != "ok":
            run.corr("alias_value(in-place)", case, "ok", a)
            continue
        run.corr("alias_value(in-place)", case, e, [[str(l[0])[3:], l[3]] for l in a[1][2][1:]])


def main():
    run = Run("C07")
    run.rule = ("every public operation of TensorDict (reflected) must have a row in the Lean class table; each row with a call recipe is executed on "
                "container kinds {regular,nested,lazy,sub,tensorclass,memmap,shared} x layouts {contiguous,strided,expanded,offset,0-size feature,0-size batch,mixed} "
                "after random preceding histories; a case is non-trivial if the operation ran (did not raise) and at least one leaf with elements was observed")
    run.trusted += [
        "Model/C07Table.lean: the classification of each public operation by its documentation is transcribed by hand (the theorems say what each class does to memory; the probe says each operation behaves as its class)",
        "harness/c07_gen.py (reflection + ast: public API list, source hints foreachInplace/foreachOut/lockBlocked/doc*, sha1 of the normalised ast of the transcribed functions -> Gen/C07Api.lean)",
        "harness/c07_probe.py abstraction function (untyped_storage().data_ptr(), storage_offset, strides -> storage id + element offsets)",
        "torch itself for tensor-level views/copies of leaves (Tensor.__getitem__, .clone, .contiguous, copy_)",
    ]
    run.assumptions += ["values are compared as bit-exact tokens; aliasing judged by sentinel writes as the property prescribes"]
    # regenerate the source-derived parts of the tie (public API, source hints, shapes of the transcribed functions)
    import c07_gen
    import gen_tables
    rows = [m.group(1) for m in re.finditer(r'\("([^"]+)", \.', (LEAN / "TdVerif/Model/C07Table.lean").read_text().split("def classTable")[1].split("def classOf")[0])]
    try:
        gen_tables.write_if_changed("C07Api.lean", c07_gen.gen_api(rows))
    except Exception as e:
        run.proof_broken.append(f"generator:C07Api:{type(e).__name__}:{e}")
    run.build_and_audit(["TdVerif.Props.C07"])
    if run.tier == "thorough":
        run.leanchecker(["TdVerif.Props.C07", "TdVerif.Lemmas.C07Storage", "TdVerif.Lemmas.C07Table", "TdVerif.Model.C07Storage", "TdVerif.Model.C07Table"])
    drv = run.driver()

    # 1. the table covers the reflected API
    table = {str(k): v for k, v in parse_sx(drv.ask("(c07.table)"))}
    run.classes = table
    run.deviations = {str(k): v for k, v in parse_sx(drv.ask("(c07.deviations)"))}
    names = api_names()
    base = {}
    for k, v in table.items():
        base.setdefault(k.split("/")[0].split("%")[0], []).append(k)
    for n in names:
        run.case(("api", n), nontrivial=False)
        ans = "known" if n in base else "unknown"
        run.corr("api_in_table", n, "known", ans)
        run.count("api.class", "/".join(sorted({table[k] for k in base.get(n, [])})) or "unknown")
    for k in table:
        if k.split("/")[0].split("%")[0] not in names:
            run.corr("table_in_api", k, "present", "absent")
        else:
            run.corr("table_in_api", k, "present", "present")
    probed = [k for k in table if k in O.R]
    unprobed = sorted(k for k in table if k.split("%")[0] not in O.R and table[k] not in ("excluded",))
    run.notes.append(f"table rows {len(table)}, with call recipe {len(probed)}, without recipe (not excluded): {unprobed}")
    for k in table:
        run.count("table.recipe", ("recipe" if k.split("%")[0] in O.R else "no-recipe") + ":" + table[k])

    # 1b. the write entry point
    setstr_stream(run, drv)
    index_stream(run, drv)
    subwindow_stream(run, drv)
    update_stream(run, drv)
    alias_value_stream(run, drv)

    # 2. cases
    rng = run.rng
    tmp = tempfile.mkdtemp(prefix="c07_", dir=str(BUILD) if BUILD.exists() or not BUILD.mkdir(parents=True, exist_ok=True) else str(BUILD))
    specs = []
    quick = run.tier == "quick"
    # corpus first: minimised past failures (each is a (kind, layout, history, op, variant, seed) tuple)
    cdir = VERIF_DIR / "corpus" / "C07"
    if cdir.exists():
        for f in sorted(cdir.glob("*.json")):
            for c in json.loads(f.read_text()).get("cases", []):
                specs.append((c["kind"], c["layout"], list(c["history"]), c["op"], c["variant"], c["seed"], c.get("chain"), c.get("op2"), c.get("post")))
    for op in sorted(probed):
        nrec = len(O.R[op])
        # the canonical configuration for every recipe of the operation
        for v in range(nrec):
            specs.append(("regular", "contiguous", [], op, v, rng.randrange(1 << 30)))
        nrand = {"inplace": 7, "view": 12, "copy": 14, "contiguous": 60, "outOfPlace": 3, "rebind": 5, "query": 1}.get(table[op], 1)
        nrand *= 2 if quick else 12
        for _ in range(nrand):
            kind = rng.choice(P.KINDS)
            layout = rng.choice(P.LAYOUTS)
            pool = HIST_LOCKED if kind in P.LOCKED_KINDS else HIST_FREE
            hist = [rng.choice(pool) for _ in range(rng.choice([0, 0, 1, 2, 3, 4]))]
            if layout == "dtypes":
                hist = []      # provenance of the non-float64 entries rests on their initial (distinct) values
            if table.get(f"{op}%{kind}") == "excluded":
                continue
            chain = rng.choice(CHAINS) if (table[op] in ("view", "copy", "contiguous") and rng.random() < 0.5) else None
            if chain is None and f"{op}%{kind}" in run.deviations and rng.random() < 0.7:
                chain = rng.choice(CHAINS)
            op2 = rng.choice(SECOND) if (chain is None and table[op] in ("view", "copy", "contiguous") and rng.random() < 0.6) else None
            post = None
            if chain is None and op2 is None and table[op] in ("outOfPlace", "copy") and rng.random() < 0.6:
                post = rng.choice(POSTS)
            specs.append((kind, layout, hist, op, rng.randrange(64), rng.randrange(1 << 30), chain, op2, post))
    # lazy stacks with ONE member / stacks of stacks x the deep-copying operations
    for op in ("contiguous", "clone", "to_tensordict", "densify", "stack", "cat", "__getitem__/advanced", "masked_select", "gather", "consolidate"):
        if op in O.R:
            for _ in range(8 if quick else 60):
                specs.append(("lazy", rng.choice(["contiguous", "strided", "offset", "mixed"]), [], op, rng.randrange(64), rng.randrange(1 << 30), None, None, None))
    # memory-mapped containers: second mappings of the same files (aliasing through the file)
    for op in ("load_memmap", "memmap_like", "memmap", "memmap_refresh_"):
        if op in O.R:
            for _ in range(4 if quick else 30):
                hist = [rng.choice(HIST_LOCKED) for _ in range(rng.choice([0, 1, 2]))]
                chain = rng.choice(CHAINS) if (op == "load_memmap" and rng.random() < 0.5) else None
                specs.append(("memmap", rng.choice(["contiguous", "zero_feat", "mixed"]), hist, op, rng.randrange(64), rng.randrange(1 << 30), chain, None, None))
    # every out-of-place arithmetic method x every operand / kwarg combination on locked containers with warm caches,
    # followed by an in-place operation on the container
    arith = [k for k in sorted(probed) if table[k] == "outOfPlace" and k in (O.UNARY + O.BINARY + ["lerp", "addcdiv", "addcmul", "clamp", "where", "masked_fill", "apply", "named_apply"])]
    for op in arith:
        for v in (range(9) if op in O.BINARY else range(2)):
            for kind in (("locked", "shared") if quick else ("locked", "shared", "memmap", "nested")):
                specs.append((kind, "contiguous", [], op, v, rng.randrange(1 << 30), None, None, rng.choice(POSTS[:7])))
    if not quick:
        # full grid kind x layout for the operations the property names
        named = [k for k in probed if table[k] in ("inplace", "view", "copy", "contiguous")]
        for op in named:
            for kind in P.KINDS:
                for layout in P.LAYOUTS:
                    if table.get(f"{op}%{kind}") == "excluded":
                        continue
                    specs.append((kind, layout, [], op, rng.randrange(64), rng.randrange(1 << 30)))
    reqs, expect, metas = [], [], []
    try:
        for spec in specs:
            try:
                req, states, meta = run_case(run, spec, tmp)
            except Infra:
                raise
            except TimeoutError:
                req, states, meta = None, None, {"case": {"kind": spec[0], "layout": spec[1], "history": spec[2], "op": spec[3], "variant": spec[4], "seed": spec[5], "chain": spec[6] if len(spec) > 6 else None, "post": spec[8] if len(spec) > 8 else None}, "status": "timeout"}
            cls = meta["case"].get("class") or table[spec[3]]
            run.count("case.status", meta["status"].split(":")[0])
            run.count("case.kind", spec[0])
            run.count("case.layout", spec[1])
            run.count("case.class", cls)
            run.count("case.history_len", len(spec[2]))
            if meta.get("chained"):
                run.count("case.chained", f"{cls}+{spec[6]}")
            if meta.get("posted"):
                run.count("case.post_inplace", f"{cls}+{meta['case'].get('post')}")
            if meta.get("second"):
                run.count("case.second_op", f"{cls}+{meta['case'].get('op2')}")
            if meta["status"] != "ok":
                run.case(("case",) + tuple(map(str, spec)), nontrivial=False)
                run.count("raised." + spec[0], spec[3])
                if spec[0] == "regular" and spec[1] == "contiguous" and not spec[2]:
                    run.count("raised.canonical", f"{spec[3]}#{spec[4]}:{meta['status']}:{meta.get('msg', '')[:60]}")
                continue
            run.case(("case",) + tuple(map(str, spec)), nontrivial=meta["n_self"] > 0)
            reqs.append(req)
            expect.append(states)
            metas.append(meta)
    finally:
        shutil.rmtree(tmp, ignore_errors=True)
    answers = ask_chunked(drv, reqs)
    for req, states, meta, ans in zip(reqs, expect, metas, answers):
        case = meta["case"]
        cls = case["class"]
        a = parse_sx(ans)
        if a[0] != "ok":
            run.corr("probe:" + cls, case, "ok", a)
            continue
        model_states = [[P.canon_model_obj(ob) for ob in st[1:]] for st in a[1:]]
        real = states
        if meta.get("amb_src"):
            # ambiguous provenance: drop the result objects' ambiguous entries on both sides (and later result objects entirely)
            ambn = set(meta["amb"])
            cut = lambda st: st[:3] + [[l for l in ob if l[0] not in ambn] for ob in st[3:4]]
            model_states, real = [cut(st) for st in model_states[:1]], [cut(st) for st in real[:1]]   # later writes would go through the ambiguous windows
        comparable = True
        if cls == "rebind" and not meta["struct_ok"]:
            comparable = False
        if meta.get("deviation") and meta.get("chained"):
            # a row of knownDeviations: the model transcribes the observed aliasing of the operation itself; what a chained
            # tensordict-level write does afterwards is judged by the oracle only
            model_states, real = model_states[:1], real[:1]
        if cls == "outOfPlace":
            # no aliasing commitment for the result: its windows are compared right after the operation only when the
            # observed aliasing is expressible (inside the container); after sentinel writes only pre-existing objects are compared
            keep0 = 4 if meta["alias_ok"] else 3
            model_states = [st[:keep0] for st in model_states[:1]] + [st[:3] for st in model_states[1:]]
            real = [st[:keep0] for st in real[:1]] + [st[:3] for st in real[1:]]
        if comparable:
            ok = run.corr("probe:" + cls, case, real, model_states)
            if not ok:
                # shorten what is stored
                d = run.corr_broken["probe:" + cls][-1]
                for i, (r, m) in enumerate(zip(real, model_states)):
                    if r != m:
                        diff = [(x, y) for ro, mo in zip(r, m) for x, y in zip(ro, mo) if x != y][:3]
                        d["impl"], d["model"] = {"step": i, "diff_impl": [x for x, _ in diff], "n_obj": len(r)}, {"step": i, "diff_model": [y for _, y in diff], "n_obj": len(m)}
                        break
        else:
            run.count("case.uncomparable", cls)
        if meta["verdicts"]:
            run.oracle_fail("sentinel:" + case["doc_class"], case, "; ".join(meta["verdicts"][:3]),
                            fingerprint=f"{case['op']}|{case['kind']}|{case['layout']}|{meta['verdicts'][0][:40]}")
        else:
            run.oracle_ok("sentinel:" + case["doc_class"])
        if len(run.samples) < 6 and cls in ("inplace", "view", "copy") and case["kind"] != "regular":
            run.sample({"case": case, "request": req[:300], "model_answer": ans[:300]})
    run.finish("proof")


if __name__ == "__main__":
    main_guard(main)
