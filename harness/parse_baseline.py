"""parse_baseline.py <tag>: compare .build/baseline_<tag>.xml with BASELINE.json (used when pytest hangs at exit)"""
import json, sys, xml.etree.ElementTree as ET
tag = sys.argv[1]
base = json.load(open('/root/.vp/BASELINE.json'))
passed = set()
for tc in ET.parse(f'/verif/.build/baseline_{tag}.xml').getroot().iter('testcase'):
    if not any(ch.tag in ('failure', 'error', 'skipped') for ch in tc):
        passed.add(f"{tc.get('classname')}::{tc.get('name')}")
missing = [t for t in base['stable_pass'] if t not in passed]
print(f"passed={len(passed)} stable_pass={len(base['stable_pass'])} missing={len(missing)}")
for t in missing[:40]:
    print("  MISSING", t)
