"""C15 translator: tensordict/tensorclass.py + reflection -> lean/TdVerif/Gen/TcTables.lean.

Re-run on every `./check C15`.  What is extracted (DESIGN §3.1, row `Gen/TcTables.lean`):

* the seven hand-maintained name lists (`ast` literals, never imported values):
  `_METHOD_FROM_TD`, `_FALLBACK_METHOD_FROM_TD`, `_FALLBACK_METHOD_FROM_TD_NOWRAP`,
  `_FALLBACK_METHOD_FROM_TD_FORCE`, `_FALLBACK_METHOD_FROM_TD_COPY`, `_TD_PASS_THROUGH`, `_CLEAR_METADATA`;
* the *installation program* of `_tensorclass` (the sequence of `cls.X = ...` / `setattr(cls, ...)`
  statements with their `hasattr` / `expected_keys` / `cls.__dict__` guards, in source order) as a
  Lean value `List Step` -- the model's `dispatch` interprets this value, it contains no
  hand-copied method name;
* by reflection: the public API of TensorDict/TensorDictBase (`dir()`), operator dunders, every
  attribute of TensorDict (what the `__getattr__` fallback can reach), properties, classmethods
  defined in `TensorDict.__dict__`, attributes of `object`, what `dataclasses.dataclass` adds to a
  class `__dict__`, and `TD_HANDLED_FUNCTIONS`.

Names are interned (sorted, so the numbering is canonical): every table is a `List Nat` of indices
into `nameTable`; kernel evaluation on `Nat` literals is ~5x faster than on `String`s.

A statement of `_tensorclass` that assigns to `cls` in a shape the matcher does not know raises
`Untranslatable` (the tie is broken, not silently skipped).
"""
from __future__ import annotations

import ast
import dataclasses

from common import REPO

HEADER = "-- GENERATED from the tensordict working tree by harness/c15_gen.py on every run; do not edit\n"

LISTS = {
    "_METHOD_FROM_TD": "methodFromTd",
    "_FALLBACK_METHOD_FROM_TD": "fallbackWrap",
    "_FALLBACK_METHOD_FROM_TD_NOWRAP": "fallbackNowrap",
    "_FALLBACK_METHOD_FROM_TD_FORCE": "fallbackForce",
    "_FALLBACK_METHOD_FROM_TD_COPY": "fallbackCopy",
    "_CLEAR_METADATA": "clearMetadata",
    "_TD_PASS_THROUGH": "passThrough",
}
# dunders that exist on every class / are python machinery, never part of the "tensordict API"
MACHINERY = {
    "__abstractmethods__", "__annotations__", "__class_getitem__", "__dict__", "__module__", "__slots__",
    "__weakref__", "__doc__", "__init__", "__new__", "__init_subclass__", "__subclasshook__", "__class__",
    "__getattribute__", "__getattr__", "__setattr__", "__delattr__", "__dir__", "__sizeof__", "__format__",
    "__reduce__", "__reduce_ex__", "__getstate__", "__setstate__", "__str__", "__hash__", "__repr__",
    "__torch_function__", "__firstlineno__", "__static_attributes__", "__orig_bases__", "__parameters__",
}


class Untranslatable(Exception):
    pass


def _src() -> ast.Module:
    return ast.parse((REPO / "tensordict" / "tensorclass.py").read_text())


# ----------------------------------------------------------------------------- literal lists
def literal_lists(mod: ast.Module) -> dict[str, list[str]]:
    out = {}
    for node in mod.body:
        if isinstance(node, ast.Assign) and len(node.targets) == 1 and isinstance(node.targets[0], ast.Name):
            name = node.targets[0].id
            if name not in LISTS:
                continue
            v = node.value
            if isinstance(v, (ast.List, ast.Set, ast.Tuple)):
                items = []
                for e in v.elts:
                    if not (isinstance(e, ast.Constant) and isinstance(e.value, str)):
                        raise Untranslatable(f"{name}: non-literal element at line {e.lineno}")
                    items.append(e.value)
            elif isinstance(v, ast.Dict):
                items = []
                for k in v.keys:
                    if not (isinstance(k, ast.Attribute) and isinstance(k.value, ast.Name) and k.value.id == "torch"):
                        raise Untranslatable(f"{name}: key is not `torch.<fn>` at line {k.lineno}")
                    items.append(k.attr)
            else:
                raise Untranslatable(f"{name}: not a literal list/set/dict")
            out[name] = items
    missing = set(LISTS) - set(out)
    if missing:
        raise Untranslatable(f"lists not found in tensorclass.py: {sorted(missing)}")
    return out


# ----------------------------------------------------------------------------- installation program
def _guard(test: ast.expr) -> list[str]:
    """test -> list of guard atoms (conjunction).  atoms: noAttr, noField, notOwn, notNonTensor"""
    if isinstance(test, ast.BoolOp) and isinstance(test.op, ast.And):
        out = []
        for v in test.values:
            out += _guard(v)
        return out
    if isinstance(test, ast.UnaryOp) and isinstance(test.op, ast.Not):
        o = test.operand
        if isinstance(o, ast.Call) and isinstance(o.func, ast.Name) and o.func.id == "hasattr" \
                and isinstance(o.args[0], ast.Name) and o.args[0].id == "cls":
            return [("noAttr", _name_arg(o.args[1]))]
        if isinstance(o, ast.Name) and o.id == "_is_non_tensor":
            return [("notNonTensor", None)]
    if isinstance(test, ast.Compare) and len(test.ops) == 1 and isinstance(test.ops[0], ast.NotIn):
        left = _name_arg(test.left)
        right = test.comparators[0]
        if isinstance(right, ast.Name) and right.id == "expected_keys":
            return [("noField", left)]
        if isinstance(right, ast.Attribute) and right.attr == "__dict__" and isinstance(right.value, ast.Name) and right.value.id == "cls":
            return [("notOwn", left)]
    raise Untranslatable(f"guard not understood at line {test.lineno}: {ast.unparse(test)}")


def _name_arg(e: ast.expr):
    """a method-name expression: string literal -> the name; the loop variable -> '$loop'"""
    if isinstance(e, ast.Constant) and isinstance(e.value, str):
        return e.value
    if isinstance(e, ast.Name) and e.id in ("method_name", "attr"):
        return "$loop"
    raise Untranslatable(f"name expression not understood at line {e.lineno}: {ast.unparse(e)}")


def _impl(v: ast.expr) -> tuple:
    """right-hand side -> (tag, detail)"""
    if isinstance(v, ast.Call) and isinstance(v.func, ast.Name):
        f = v.func.id
        if f == "_wrap_td_method":
            kw = {k.arg: k.value for k in v.keywords}
            nowrap = isinstance(kw.get("no_wrap"), ast.Constant) and kw["no_wrap"].value is True
            copy = isinstance(kw.get("copy_non_tensor"), ast.Constant) and kw["copy_non_tensor"].value is True
            unknown = set(kw) - {"no_wrap", "copy_non_tensor", "is_property"}
            if unknown:
                raise Untranslatable(f"_wrap_td_method keyword {unknown} at line {v.lineno}")
            if nowrap and copy:
                raise Untranslatable("no_wrap and copy_non_tensor together")
            return ("wrapTd", "nowrap" if nowrap else "copy" if copy else "wrap")
        if f == "getattr" and isinstance(v.args[0], ast.Name) and v.args[0].id in ("TensorDict", "TensorDictBase"):
            return ("fromTd", v.args[0].id)
        if f == "classmethod":
            return ("explicit", "classmethod:" + ast.unparse(v.args[0]))
        if f == "property":
            return ("explicit", "property:" + ast.unparse(v.args[0]))
        if f == "_wrap_classmethod":
            return ("wrapClassmethod", "")
        if f in ("_init_wrapper", "_setattr_wrapper"):
            return ("explicit", f)
    if isinstance(v, ast.Name):
        return ("explicit", v.id)
    if isinstance(v, ast.Attribute) and isinstance(v.value, ast.Name):
        if v.value.id in ("TensorDict", "TensorDictBase"):
            return ("fromTd", v.value.id)
        if v.value.id == "cls":
            return ("explicit", "alias:" + v.attr)
    raise Untranslatable(f"right-hand side not understood at line {v.lineno}: {ast.unparse(v)}")


def _assign_target(st: ast.stmt):
    """cls.X = v | setattr(cls, name, v) -> (name, value) else None"""
    if isinstance(st, ast.Assign) and len(st.targets) == 1:
        t = st.targets[0]
        if isinstance(t, ast.Attribute) and isinstance(t.value, ast.Name) and t.value.id == "cls":
            return t.attr, st.value
        # chained `expected_keys = cls.__expected_keys__ = ...` etc. are metadata, not methods
    if isinstance(st, ast.Assign):
        for t in st.targets:
            if isinstance(t, ast.Attribute) and isinstance(t.value, ast.Name) and t.value.id == "cls":
                return t.attr, st.value
    if isinstance(st, ast.Expr) and isinstance(st.value, ast.Call) and isinstance(st.value.func, ast.Name) \
            and st.value.func.id == "setattr":
        a = st.value.args
        if isinstance(a[0], ast.Name) and a[0].id == "cls":
            return _name_arg(a[1]), a[2]
    return None


# attributes written by _tensorclass that are data, not methods of the API
METADATA_ATTRS = {"__expected_keys__", "__doc__", "_is_non_tensor", "_is_tensorclass", "_type_hints",
                  "_set_dict_warn_msg", "_autocast", "_nocast", "_shadow", "_frozen"}


def property_rule(mod: ast.Module) -> str:
    """how the no-wrap loop decides to install a property instead of a method"""
    fn = next(n for n in mod.body if isinstance(n, ast.FunctionDef) and n.name == "_tensorclass")
    rules = []
    for node in ast.walk(fn):
        if isinstance(node, ast.Assign) and len(node.targets) == 1 and isinstance(node.targets[0], ast.Name) \
                and node.targets[0].id == "is_property":
            rules.append(" ".join(ast.unparse(node.value).split()))
    if len(rules) != 1:
        raise Untranslatable(f"expected one `is_property = ...` in _tensorclass, found {len(rules)}")
    r = rules[0]
    if r == "isinstance(getattr(TensorDictBase, method_name, None), property)":
        return "propertyOnly"
    if r == "isinstance(td_attr, property) or not callable(td_attr)":
        return "propertyOrValue"
    raise Untranslatable(f"is_property rule not understood: {r}")


def install_program(mod: ast.Module) -> list[tuple]:
    """-> list of steps
       ("assign", name, guards, impl) | ("loop", listname, guards, impl) | ("classmethodLoop",)"""
    fn = next((n for n in mod.body if isinstance(n, ast.FunctionDef) and n.name == "_tensorclass"), None)
    if fn is None:
        raise Untranslatable("_tensorclass not found")
    steps: list[tuple] = []
    seen_dataclass = False

    def do_block(stmts, guards, loop_list):
        nonlocal seen_dataclass
        for st in stmts:
            if isinstance(st, ast.FunctionDef):
                continue  # nested helper (__torch_function__)
            if isinstance(st, ast.Assign) and isinstance(st.value, ast.Call) and isinstance(st.value.func, ast.Name) \
                    and st.value.func.id == "dataclass":
                seen_dataclass = True
                continue
            tgt = _assign_target(st)
            if tgt is not None:
                name, val = tgt
                if name in METADATA_ATTRS:
                    continue
                impl = _impl(val)
                if name == "$loop":
                    if loop_list is None:
                        raise Untranslatable(f"loop variable outside a loop at line {st.lineno}")
                    steps.append(("loop", loop_list, list(guards), impl))
                else:
                    # guards naming a different attribute than the target are not understood
                    for g, n in guards:
                        if n not in (None, name):
                            raise Untranslatable(f"guard on {n!r} protects assignment of {name!r} (line {st.lineno})")
                    steps.append(("assign", name, [g for g, _ in guards], impl))
                continue
            if isinstance(st, ast.If):
                src = ast.unparse(st.test)
                if src == "not shadow":
                    continue  # field-name validation, raises only
                g = _guard(st.test)
                if st.orelse:
                    raise Untranslatable(f"else branch in installation at line {st.lineno}")
                do_block(st.body, guards + g, loop_list)
                continue
            if isinstance(st, ast.For):
                it = ast.unparse(st.iter)
                if it in LISTS:
                    # guards inside refer to the loop variable
                    do_block(st.body, guards, it)
                    continue
                if it == "TensorDict.__dict__.keys()":
                    # for attr in TensorDict.__dict__: func = getattr(TensorDict, attr); if ismethod(func) and attr not in cls.__dict__: ...
                    txt = ast.unparse(st)
                    for needle in ("inspect.ismethod(func)", "attr not in cls.__dict__", "issubclass(tdcls, TensorDictBase)",
                                   "_wrap_classmethod(tdcls, cls, func)"):
                        if needle not in txt:
                            raise Untranslatable(f"classmethod loop changed: {needle!r} not found")
                    # which statements does the loop body consist of?  (pinned: if/assign/if ; repaired: + `continue`
                    # when the class inherits a classmethod object under that name)
                    keeps = "isinstance(inspect.getattr_static(cls, attr, None), classmethod)" in txt and "continue" in txt
                    n_if = sum(isinstance(n, ast.If) for n in ast.walk(st))
                    if n_if != (3 if keeps else 2):
                        raise Untranslatable(f"classmethod loop has an unexpected shape ({n_if} if-statements)")
                    steps.append(("classmethodLoop", keeps))
                    continue
                if it == "cls.fields()":
                    continue  # delattr of field defaults (modelled in ClassCfg: fields are never own attributes)
                if it == "expected_keys":
                    continue
                raise Untranslatable(f"loop over {it} at line {st.lineno}")
            if isinstance(st, (ast.Expr, ast.Try, ast.ImportFrom, ast.Return, ast.Assign)):
                # calls (_get_type_hints, _register_*), pytree registration, local variables
                txt = ast.unparse(st)
                if "setattr(cls" in txt or ("cls." in txt and "=" in txt and isinstance(st, ast.Assign)
                                              and any(isinstance(t, ast.Attribute) for t in st.targets)):
                    raise Untranslatable(f"assignment to cls not understood at line {st.lineno}: {txt[:80]}")
                continue
            raise Untranslatable(f"statement not understood at line {st.lineno}: {ast.unparse(st)[:80]}")

    def fix_guards(stmts):
        return stmts

    # guards are kept as (atom, name) pairs while walking
    def walk(stmts, guards, loop_list):
        do_block(stmts, guards, loop_list)

    walk(fn.body, [], None)
    if not seen_dataclass:
        raise Untranslatable("dataclass(cls, ...) call not found in _tensorclass")
    # normalise loop guards to atoms
    out = []
    for s in steps:
        if s[0] == "loop":
            out.append(("loop", s[1], [g for g, _ in s[2]], s[3]))
        else:
            out.append(s)
    return out


# ----------------------------------------------------------------------------- reflection
def reflect() -> dict[str, list[str]]:
    import inspect

    import tensordict  # noqa: F401
    from tensordict import TensorDict, TensorDictBase
    from tensordict._torch_func import TD_HANDLED_FUNCTIONS

    obj_attrs = set(dir(object))
    td_attrs = sorted(set(dir(TensorDict)))
    public = [n for n in td_attrs if not n.startswith("_")]
    dunder_ops = []
    for n in td_attrs:
        if not (n.startswith("__") and n.endswith("__")) or n in MACHINERY:
            continue
        v = inspect.getattr_static(TensorDict, n)
        if n in obj_attrs and v is inspect.getattr_static(object, n):
            continue  # not overridden by the library
        if callable(getattr(TensorDict, n, None)):
            dunder_ops.append(n)
    props = [n for n in td_attrs if isinstance(inspect.getattr_static(TensorDict, n, None), property)
             or isinstance(getattr(TensorDictBase, n, None), property)]
    values = [n for n in td_attrs if not isinstance(getattr(TensorDictBase, n, None), property)
              and not callable(getattr(TensorDictBase, n, None)) and hasattr(TensorDictBase, n)]
    own_cm = []
    for n in TensorDict.__dict__.keys():
        f = getattr(TensorDict, n)
        if inspect.ismethod(f) and isinstance(f.__self__, type) and issubclass(f.__self__, TensorDictBase):
            own_cm.append(n)
    all_cm = [n for n in td_attrs if inspect.ismethod(getattr(TensorDict, n, None))]

    @dataclasses.dataclass
    class _Plain:
        zz_field: int = 0

    @dataclasses.dataclass(frozen=True)
    class _Frozen:
        zz_field: int = 0

    class _Bare:
        pass

    bare = set(_Bare.__dict__)
    dc_plain = sorted(set(_Plain.__dict__) - bare - {"zz_field", "__annotations__"})
    dc_frozen = sorted(set(_Frozen.__dict__) - bare - {"zz_field", "__annotations__"})
    handled = sorted(f.__name__ for f in TD_HANDLED_FUNCTIONS)
    return {
        "publicApi": sorted(public), "operatorApi": sorted(dunder_ops), "tdAttrs": td_attrs, "tdProperties": sorted(props), "tdValueAttrs": sorted(values),
        "tdOwnClassmethods": sorted(own_cm), "tdClassmethods": sorted(all_cm), "objectAttrs": sorted(obj_attrs | bare),
        "dataclassAdds": dc_plain, "dataclassAddsFrozen": dc_frozen, "handledFunctions": handled,
    }


# ----------------------------------------------------------------------------- emit
def gather():
    mod = _src()
    lists = literal_lists(mod)
    prog = install_program(mod)
    refl = reflect()
    refl["$propertyRule"] = property_rule(mod)
    return lists, prog, refl


def lean_str(s: str) -> str:
    return '"' + s.replace("\\", "\\\\").replace('"', '\\"') + '"'


def generate() -> tuple[str, dict]:
    lists, prog, refl = gather()
    prop_rule = refl.pop("$propertyRule")
    names = set()
    for v in lists.values():
        names.update(v)
    for v in refl.values():
        names.update(v)
    for s in prog:
        if s[0] == "assign":
            names.add(s[1])
    table = sorted(names)
    idx = {n: i for i, n in enumerate(table)}

    def ids(xs):
        return "[" + ", ".join(str(idx[x]) for x in xs) + "]"

    def impl_l(impl):
        tag, d = impl
        if tag == "wrapTd":
            return {"wrap": ".wrap", "nowrap": ".nowrap", "copy": ".copy"}[d]
        if tag == "fromTd":
            return ".fromTD"
        if tag == "wrapClassmethod":
            return ".classmethod"
        return f".explicit {lean_str(d)}"

    def guards_l(gs):
        return "[" + ", ".join("." + g for g in gs) + "]"

    L = [HEADER, "import TdVerif.Model.C15Kinds\n", "namespace TdVerif.Gen.Tc\nopen TdVerif.C15\n"]
    L.append(f"/-- interned names, sorted; every table below holds indices into this list ({len(table)} names) -/")
    L.append("def nameTable : List String := [")
    for i in range(0, len(table), 8):
        L.append("  " + ", ".join(lean_str(x) for x in table[i:i + 8]) + ("," if i + 8 < len(table) else ""))
    L.append("]\n")
    for py, ln in LISTS.items():
        L.append(f"/-- tensorclass.py `{py}` ({len(lists[py])} entries, source order) -/")
        L.append(f"def {ln} : List Nat := {ids(lists[py])}\n")
    refl = dict(refl)
    refl["dunderNames"] = [n for n in table if n.startswith("__") and n.endswith("__")]
    for k, v in refl.items():
        L.append(f"/-- reflection: {k} ({len(v)}) -/")
        L.append(f"def {k} : List Nat := {ids(v)}\n")
    L.append("/-- tensorclass.py:_tensorclass, no-wrap loop: `is_property = ...` -/")
    L.append(f"def propertyRule : PropRule := .{prop_rule}\n")
    L.append("/-- the list a `for method_name in <LIST>` loop of `_tensorclass` ranges over -/")
    L.append("def tableOf : TableId → List Nat")
    for py, ln in LISTS.items():
        if py in ("_CLEAR_METADATA", "_TD_PASS_THROUGH"):
            continue
        L.append(f"  | .{ln} => {ln}")
    L.append("")
    L.append(f"/-- tensorclass.py:_tensorclass — every `cls.X = …` / `setattr(cls, …)` in source order ({len(prog)} steps) -/")
    L.append("def installProgram : List Step := [")
    rows = []
    for s in prog:
        if s[0] == "assign":
            rows.append(f"  .assign {idx[s[1]]} {guards_l(s[2])} ({impl_l(s[3])})  -- {s[1]}")
        elif s[0] == "loop":
            rows.append(f"  .loop .{LISTS[s[1]]} {guards_l(s[2])} ({impl_l(s[3])})  -- for method_name in {s[1]}")
        else:
            rows.append(f"  .classmethodLoop {'true' if s[1] else 'false'}  -- for attr in TensorDict.__dict__: classmethods not in cls.__dict__"
                        + (" and not inherited as a classmethod object" if s[1] else ""))
    # comments must not swallow the separating commas: put comma before the comment
    fixed = []
    for i, r in enumerate(rows):
        code, _, com = r.partition("  -- ")
        fixed.append(code + ("," if i + 1 < len(rows) else "") + "  -- " + com)
    L += fixed
    L.append("]\n")
    L.append("end TdVerif.Gen.Tc\n")
    meta = {"names": table, "idx": idx, "lists": lists, "prog": prog, "refl": refl}
    return "\n".join(L), meta


if __name__ == "__main__":
    import sys
    text, meta = generate()
    sys.stdout.write(text)
