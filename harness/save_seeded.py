"""save_seeded.py <outdir> <Cxx> <start-index> <result1> <result2> ...  (result = caught|missed)
copies mutant_i/{patch.diff,demo.py,meta.json} to /verif/seeded/Cxx-<n>/ and records what the integrator ran"""
import json, shutil, sys
from pathlib import Path
out, prop, start = Path(sys.argv[1]), sys.argv[2], int(sys.argv[3])
for j, res in enumerate(sys.argv[4:], 1):
    src = out / f"mutant_{j}"
    d = Path(f"/verif/seeded/{prop}-{start + j - 1}")
    d.mkdir(parents=True, exist_ok=True)
    for f in ("patch.diff", "demo.py"):
        shutil.copy(src / f, d / f)
    m = json.loads((src / "meta.json").read_text())
    m.update({"id": d.name, "breaks_property": prop,
              "origin": "independent sub-agent given only the property text and a scratch worktree (nothing from /verif)",
              "integrator_ran": f"git -C /repo apply patch.diff; ./check {prop} --tier quick; git -C /repo checkout -- . ; demo.py run on clean and patched tree",
              "result_first_run": res})
    (d / "meta.json").write_text(json.dumps(m, indent=1))
    print("saved", d)
