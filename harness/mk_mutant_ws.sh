#!/bin/bash
# mk_mutant_ws.sh <name>: scratch worktree of /repo for a mutation sub-agent (nothing from /verif)
set -e
N="$1"; W=/tmp/m_$N
rm -rf "$W"; git -C /repo worktree prune; git -C /repo branch -D "m_$N" -q 2>/dev/null || true
git -C /repo worktree add -q "$W" -b "m_$N"
cp /repo/tensordict/_C*.so "$W/tensordict/"
echo "$W"
