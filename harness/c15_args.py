"""C15 — argument synthesiser for the tensordict API (one or more candidate calls per method).

`candidates(name)` returns a list of `Cand(label, build)`; `build(ctx, side)` returns `(args, kwargs)`
for the call on the tensorclass (`side == "tc"`) or on its `_tensordict` (`side == "td"`).
Operands that are "another object like the receiver" are produced by `ctx.other(side, seed)`:
a tensorclass instance on the tc side, the `_tensordict` of an identically built instance on the
td side (so both calls see the same values).  `ctx.other_td(seed)` gives a bare tensordict on both sides.

Methods without an entry get the single candidate "no arguments"; the harness records, per method,
whether any candidate made the tensordict call succeed (evidence table `behaviour.coverage`).
"""
from __future__ import annotations

import dataclasses
from typing import Callable

import torch

BATCH = (2, 3)


@dataclasses.dataclass
class Cand:
    label: str
    build: Callable  # (ctx, side) -> (args, kwargs)
    flavour: str = "float"       # "float" | "bool": dtype of the tensor leaves of the receivers / operands
    prepare: Callable | None = None   # (receiver, ctx, side) -> None, run on both receivers before the call


def _c(label, fn, flavour="float", prepare=None):
    return Cand(label, fn, flavour, prepare)


def A(*args, **kwargs):
    """constant arguments"""
    return lambda ctx, side: (args, kwargs)


def mask(ctx):
    return torch.tensor([[True, False, True], [False, True, False]])


def plus1(t):
    return t + 1


def named_plus1(k, t):
    return t + 1


def binary(ctx, side, seed=1):
    return ((ctx.other(side, seed),), {})


TABLE: dict[str, list[Cand]] = {}


def reg(names, *cands):
    for n in names.split():
        TABLE.setdefault(n, []).extend(cands)


# --- binary arithmetic / comparison: scalar and same-structure operand
_BIN = ("add sub mul div pow maximum minimum clamp_max clamp_min logical_and "
        "add_ sub_ mul_ div_ pow_ maximum_ minimum_ clamp_max_ clamp_min_ "
        "__add__ __sub__ __mul__ __truediv__ __pow__ __radd__ __rsub__ __rmul__ __rtruediv__ __rpow__ "
        "__iadd__ __isub__ __imul__ __itruediv__ __ipow__ __eq__ __ne__ __ge__ __gt__ __le__ __lt__")
_BOOLBIN = "bitwise_and __and__ __or__ __xor__ __rand__ __ror__ __rxor__"
reg(_BIN, _c("scalar", A(2.0)), _c("same-structure", lambda ctx, side: binary(ctx, side)))
reg(_BOOLBIN, _c("bool-scalar", A(True), flavour="bool"), _c("bool-same-structure", lambda ctx, side: binary(ctx, side), flavour="bool"))


def _stash(receiver, ctx, side):
    """remember the receiver: the `ties` operand is built from its own values"""
    if not hasattr(ctx, "recv"):
        ctx.recv = {}
    ctx.recv[side] = receiver


def _ties(ctx, side):
    """an operand of the receiver's class / structure whose tensors are the receiver's plus the pattern -1, 0, +1, 0: TIES at
    every other position (comparison operators differ exactly there), smaller and greater values elsewhere"""
    r = ctx.recv[side]
    o = ctx.other("tc", 0)
    rx = r.get("x") if side == "td" else r.x
    has_n = "n" in ctx.cls.__expected_keys__
    rny = (r.get(("n", "y")) if side == "td" else r.n.y) if has_n else None
    o.x = rx.clone() + torch.tensor([-1.0, 0.0, 1.0, 0.0])
    if rny is not None:
        o.n.y = rny.clone() + torch.tensor([0.0, 1.0, -1.0])
    return ((o if side == "tc" else o._tensordict,), {})


def _ties_lazy_operand(ctx, side):
    """the same tied operand, but LAZILY STACKED (the receiver may be dense: `dense >= lazy` is answered by the reflected
    operator of the lazy stack)"""
    import c15_classes as Z
    (o,), _ = _ties(ctx, "tc")
    lz = Z.make_lazy(ctx.cls, flavour=ctx.flavour)
    lz.x = o.x
    if "n" in ctx.cls.__expected_keys__:
        lz.n.y = o.n.y
    return ((lz if side == "tc" else lz._tensordict,), {})


reg("__eq__ __ne__ __ge__ __gt__ __le__ __lt__", _c("ties", _ties, prepare=_stash), _c("ties-lazy-operand", _ties_lazy_operand, prepare=_stash))


def _same_values(ctx, side):
    """an operand holding exactly the receiver's own values (bool flavour): `a | a`, `a ^ a`, `a & a` all differ"""
    r = ctx.recv[side]
    o = ctx.other("tc", 0)
    o.x = (r.get("x") if side == "td" else r.x).clone()
    if "n" in type(o).__expected_keys__:
        o.n.y = (r.get(("n", "y")) if side == "td" else r.n.y).clone()
    else:                                                   # the tensor-only class T1(x, y)
        o.y = (r.get("y") if side == "td" else r.y).clone()
    return ((o if side == "tc" else o._tensordict,), {})


reg(_BOOLBIN, _c("bool-same-values", _same_values, flavour="bool", prepare=_stash))
reg("__invert__", _c("bool", A(), flavour="bool"))
reg("lerp lerp_", _c("scalar-weight", lambda ctx, side: ((ctx.other(side, 1), 0.5), {})))
reg("addcmul addcdiv addcmul_ addcdiv_",
    _c("two-operands", lambda ctx, side: ((ctx.other(side, 1), ctx.other(side, 2)), {"value": 2})))
reg("clamp", _c("scalars", A(1.0, 2.0)), _c("kw", A(min=1.0)))
reg("where", _c("cond-other", lambda ctx, side: ((mask(ctx), ctx.other(side, 1)), {})))
reg("masked_fill masked_fill_", _c("mask-value", lambda ctx, side: ((mask(ctx), 7.0), {})))
reg("masked_select", _c("mask", lambda ctx, side: ((mask(ctx),), {})))
reg("copy_ update update_", _c("same-structure", lambda ctx, side: binary(ctx, side)),
    _c("bare-td", lambda ctx, side: ((ctx.other_td(1),), {})),
    _c("dict", lambda ctx, side: (({"x": torch.zeros(*BATCH, 4)},), {})))
reg("update", _c("keys-to-update", lambda ctx, side: ((ctx.other(side, 1),), {"keys_to_update": ["x"]})),
    _c("keys-to-update-nested", lambda ctx, side: ((ctx.other(side, 1),), {"keys_to_update": [("n", "y")]})),
    _c("inplace", lambda ctx, side: ((ctx.other(side, 1),), {"inplace": True})),
    _c("clone", lambda ctx, side: ((ctx.other(side, 1),), {"clone": True})),
    _c("bare-td-clone", lambda ctx, side: ((ctx.other_td(1),), {"clone": True})),
    _c("bare-td-keys", lambda ctx, side: ((ctx.other_td(1),), {"keys_to_update": ["x"]})))
reg("update_", _c("keys-to-update", lambda ctx, side: ((ctx.other(side, 1),), {"keys_to_update": ["x"]})),
    _c("bare-td-clone", lambda ctx, side: ((ctx.other_td(1),), {"clone": True})))
reg("copy_at_ update_at_", _c("same-structure-idx", lambda ctx, side: ((ctx.other(side, 1)[0], 0), {})),
    _c("bare-td-idx", lambda ctx, side: ((ctx.other_td(1)[0], 0), {})))
reg("expand_as", _c("bigger", lambda ctx, side: ((torch.zeros(5, *BATCH),), {})))
reg("replace", _c("dict", lambda ctx, side: (({"x": torch.zeros(*BATCH, 4)},), {})),
    _c("kw", lambda ctx, side: ((), {"x": torch.zeros(*BATCH, 4)})))

# --- shape
reg("reshape view", _c("flat", A(6)), _c("tuple", A((3, 2))), _c("minus1", A(-1)))
reg("flatten", _c("all", A()), _c("range", A(0, 1)))
reg("unflatten", _c("dim0", A(0, (1, 2))), _c("dim-1", A(-1, (3, 1))))
reg("permute", _c("swap", A(1, 0)), _c("tuple", A((1, 0))))
reg("transpose", _c("01", A(0, 1)))
reg("squeeze", _c("none", A()), _c("dim", A(0)))
reg("unsqueeze", _c("0", A(0)), _c("-1", A(-1)))
reg("expand", _c("prefix", A(4, 2, 3)), _c("tuple", A((4, 2, 3))))
reg("repeat", _c("21", A(2, 1)))
reg("repeat_interleave", _c("dim0", A(2, dim=0)), _c("kw", A(repeats=2, dim=1)))
reg("split", _c("int", A(1, 0)), _c("list", A([1, 2], 1)))
reg("chunk", _c("2", A(2, 0)), _c("3-dim1", A(3, 1)))
reg("unbind", _c("0", A(0)), _c("-1", A(-1)))
reg("gather", _c("dim1", lambda ctx, side: ((1, torch.tensor([[0, 2], [1, 1]])), {})))
reg("size", _c("all", A()), _c("dim", A(0)))
reg("refine_names rename rename_", _c("names", A("a", "b")))
reg("to_padded_tensor", _c("default", A()))
reg("densify", _c("default", A()))

# --- reductions
_RED = "sum mean prod std var nansum nanmean amax amin max min"
reg(_RED, _c("all", A()), _c("dim0", A(0)), _c("dim-keep", A(1, True)), _c("reduce", A(reduce=True)))
reg("all any", _c("all", A()), _c("dim0", A(0)))
reg("cummax cummin", _c("dim0", A(0)), _c("dim1-noidx", A(1, return_indices=False)))
reg("logsumexp", _c("all", A()), _c("dim0", A(0)))
reg("softmax", _c("dim0", A(0)), _c("dim-1", A(-1)))
reg("norm", _c("default", A()))

# --- keys / entries
reg("get", _c("tensor", A("x")), _c("nested", A("n")), _c("nontensor", A("s")), _c("nested-key", A(("n", "y"))),
    _c("missing-default", A("zz", None)), _c("none-field", A("o", None)),
    # without a default: what a missing key gives (None or KeyError) is the tensordict's choice, the tensorclass follows it
    _c("missing", A("zz")), _c("missing-nested", A(("n", "zz"))), _c("missing-kw-default", A("zz", default=3)))
reg("get_at", _c("tensor", A("x", 0)), _c("nested-key", A(("n", "y"), slice(0, 1))))
reg("get_non_tensor", _c("s", A("s")), _c("nested", A(("n", "t"))))
reg("get_item_shape entry_class", _c("x", A("x")), _c("s", A("s")), _c("n", A("n")))
reg("pop", _c("x", A("x")), _c("s", A("s")), _c("default", A("zz", None)))
reg("popitem", _c("default", A()))
reg("del_ __delitem__", _c("x", A("x")), _c("s", A("s")), _c("nested", A(("n", "y"))))
reg("__contains__", _c("x", A("x")), _c("missing", A("zz")), _c("nested", A(("n", "y"))), _c("none-field", A("o")))
reg("set", _c("tensor", lambda ctx, side: (("x", torch.zeros(*BATCH, 4)), {})),
    _c("none-field", lambda ctx, side: (("o", torch.ones(*BATCH)), {})),
    _c("nested-key", lambda ctx, side: ((("n", "y"), torch.zeros(*BATCH)), {})),
    _c("nontensor", A("s", "changed")))
reg("set_", _c("tensor", lambda ctx, side: (("x", torch.zeros(*BATCH, 4)), {})))
reg("set_at_", _c("tensor", lambda ctx, side: (("x", torch.zeros(3, 4), 0), {})))
reg("set_non_tensor", _c("s", A("s", "changed")), _c("nested", A(("n", "t"), "changed")))
reg("setdefault", _c("existing", lambda ctx, side: (("x", torch.zeros(*BATCH, 4)), {})),
    _c("none-field", lambda ctx, side: (("o", torch.ones(*BATCH)), {})))
reg("fill_", _c("x", A("x", 1.0)))
reg("rename_key_", _c("to-none-field", A("x", "o")))
reg("select", _c("x", A("x")), _c("x-n", A("x", "n")), _c("nested", A(("n", "y"))), _c("inplace", A("x", inplace=True)))
reg("exclude", _c("x", A("x")), _c("s", A("s")), _c("inplace", A("x", inplace=True)))
reg("split_keys", _c("x", A(["x"])), _c("two", A(["x"], ["s"])))
reg("separates", _c("x", A("x")))
reg("create_nested", _c("none-field", A("o")))
reg("flatten_keys unflatten_keys", _c("default", A()), _c("sep", A("_")))
reg("keys values items", _c("default", A()), _c("nested", A(True)), _c("leaves", A(True, True)), _c("sorted", A(sort=True)))
reg("non_tensor_items", _c("default", A()), _c("nested", A(True)))
reg("empty", _c("default", A()), _c("recurse", A(recurse=True)))
reg("clone copy", _c("default", A()))
reg("clone", _c("norecurse", A(False)))
reg("cat_tensors stack_tensors", _c("xx", A("x", "x", out_key="o")))
reg("cat_tensors stack_tensors", _c("xx-last-dim-keep", A("x", "x", out_key="o", dim=-1, keep_entries=True)))
reg("cat_from_tensordict stack_from_tensordict", _c("default", A()))
reg("filter_non_tensor_data filter_empty_ clear", _c("default", A()))
reg("apply apply_", _c("plus1", A(plus1)))
reg("apply", _c("two", lambda ctx, side: ((torch.add, ctx.other(side, 1)), {})), _c("batch", A(plus1, batch_size=[2])))
reg("named_apply", _c("plus1", A(named_plus1)), _c("nested-keys", A(named_plus1, nested_keys=True)))
reg("map", _c("serial", A(plus1, num_workers=0)))
reg("to_dict", _c("default", A()), _c("no-none", A(retain_none=False)))
reg("to_tensordict", _c("retain", A(retain_none=True)), _c("drop", A(retain_none=False)))
reg("tolist", _c("default", A()))
reg("to", _c("cpu", A("cpu")), _c("dtype", A(torch.float64)), _c("both", A("cpu", torch.float16)))
reg("type", _c("double", A(torch.float64)))
reg("auto_batch_size_", _c("default", A()), _c("dims1", A(1)))
reg("requires_grad_", _c("default", A()), _c("false", A(False)))
reg("zero_grad", _c("default", A()))

# --- constructors on instances
reg("new_zeros new_ones new_empty", _c("size", A(4, 2)), _c("tuple", A((5,))))
reg("new_full", _c("size-val", A((4,), 3.0)))
reg("new_tensor", _c("tensor", lambda ctx, side: ((torch.ones(2),), {})))
reg("stack cat lazy_stack maybe_dense_stack",
    _c("list-same", lambda ctx, side: (([ctx.other(side, 1), ctx.other(side, 2)], 0), {})),
    _c("dim1", lambda ctx, side: (([ctx.other(side, 1), ctx.other(side, 2)], 1), {})))
reg("from_dict from_dict_instance",
    _c("dict", lambda ctx, side: (({"x": torch.zeros(*BATCH, 4), "n": {"y": torch.ones(*BATCH), "t": "nested0"}, "s": "fd"},),
                                  {"batch_size": list(BATCH)})))
reg("from_module from_modules", _c("module", lambda ctx, side: ((torch.nn.Linear(2, 2),), {})))
_NT = __import__("collections").namedtuple("_NT", ["x", "s"])


@dataclasses.dataclass
class _DC:
    x: torch.Tensor
    s: str


reg("from_namedtuple from_tuple", _c("fields", lambda ctx, side: ((_NT(x=torch.zeros(*BATCH, 4), s="a"),), {"batch_size": list(BATCH)})))
reg("from_dataclass", _c("fields", lambda ctx, side: ((_DC(x=torch.zeros(*BATCH, 4), s="a"),), {"batch_size": list(BATCH)})))
reg("from_pytree from_any", _c("dict", lambda ctx, side: (({"x": torch.zeros(*BATCH, 4)},), {"batch_size": list(BATCH)})))
reg("from_struct_array", _c("x", lambda ctx, side: ((__import__("numpy").zeros(BATCH, dtype=[("x", "f4", (4,))]),), {})))
reg("fromkeys", _c("keys", A(["x", "s"], 0)))

# --- serialisation
reg("memmap memmap_ memmap_like save dumps", _c("prefix", lambda ctx, side: ((ctx.tmp(side),), {})), _c("noprefix", A()))
reg("load_ load_memmap_ load load_memmap", _c("saved", lambda ctx, side: ((ctx.saved(side),), {})))
def _memmapped(recv, ctx, side):
    recv.memmap_(ctx.tmp(side))


def _with_last_op(recv, ctx, side):
    recv.lock_()
    recv.unlock_()


reg("make_memmap", _c("o", lambda ctx, side: (("o", torch.Size([2, 3, 2])), {}), prepare=_memmapped))
reg("make_memmap_from_tensor", _c("o", lambda ctx, side: (("o", torch.ones(2, 3, 2)), {}), prepare=_memmapped))
reg("saved_path memmap_refresh_ is_memmap", _c("memmapped", A(), prepare=_memmapped))
reg("__enter__", _c("after-unlock", A(), prepare=_with_last_op))
def _entered(recv, ctx, side):
    _with_last_op(recv, ctx, side)
    recv.__enter__()


reg("__exit__", _c("after-unlock", A(None, None, None), prepare=_entered))
reg("state_dict", _c("default", A()), _c("flatten", A(flatten=True)), _c("prefix-keep-vars", A(prefix="p.", keep_vars=True)))
reg("load_state_dict", _c("own", lambda ctx, side: ((ctx.state_dict(side),), {})))
reg("consolidate", _c("default", A()))
reg("share_memory_ memmap_refresh_ lock_ unlock_ detach detach_ contiguous cpu pin_memory pin_memory_", _c("default", A()))
reg("to_module", _c("linear", lambda ctx, side: ((torch.nn.Linear(2, 2),), {})))
reg("to_h5", _c("file", lambda ctx, side: ((ctx.tmp(side) + "/f.h5",), {})))

# --- indexing operators
_IDX = [("int", 0), ("slice", slice(0, 1)), ("tuple", (0, slice(None))), ("ellipsis", (Ellipsis, 1)), ("list", [0, 1]),
        ("tensor", torch.tensor([1, 0])), ("mask", torch.tensor([True, False])), ("none", None), ("neg", -1)]
# (string keys are rejected by tensorclass.__getitem__ on purpose - fields are attributes - so no "str-key" candidate)
reg("__getitem__", *[_c(l, A(i)) for l, i in _IDX], _c("oob", A(5)), _c("empty-tuple", A(())))
reg("__getitems__", _c("list", A([0, 1])))
reg("__setitem__",
    _c("int-same", lambda ctx, side: ((0, ctx.other(side, 1)[1]), {})),
    _c("slice-same", lambda ctx, side: ((slice(0, 1), ctx.other(side, 1)[1:2]), {})),
    _c("int-baretd", lambda ctx, side: ((0, ctx.other_td(1)[1]), {})),
    _c("mask-same", lambda ctx, side: ((torch.tensor([True, False]), ctx.other(side, 1)[:1]), {})),
    _c("scalar", A(0, 0.0)),
    _c("tuple-same", lambda ctx, side: (((0, slice(1, 3)), ctx.other(side, 1)[1, :2]), {})))
reg("__len__ __iter__ __bool__ __abs__ __neg__ __enter__", _c("default", A()))
reg("__exit__", _c("none", A(None, None, None)))

# things that need hardware / a process group / a pool: dispatch is still checked, behaviour is not exercised
SKIP_BEHAVIOUR = {
    "cuda": "needs a GPU", "record_stream": "needs a CUDA stream", "send": "needs a process group", "recv": "needs a process group",
    "isend": "needs a process group", "irecv": "needs a process group", "reduce": "needs a process group",
    "gather_and_stack": "needs a process group", "map_iter": "spawns a process pool", "from_h5": "h5 files", "to_h5": "h5 files",
    "qint8": "quantised dtypes", "qint32": "quantised dtypes", "quint8": "quantised dtypes", "quint4x2": "quantised dtypes",
    "make_memmap_from_storage": "raw storage argument", "pin_memory": "needs CUDA", "pin_memory_": "needs CUDA",
    "map": "spawns a process pool", "to_module": "needs a module with matching parameters",
}


def candidates(name: str) -> list[Cand]:
    return TABLE.get(name, [_c("noargs", A())])
