"""C07 / C19 — parts of the model's tie that are REGENERATED from the working tree on every run (DESIGN §3.1):

  Gen/C07Api.lean     apiRows   the public API of TensorDict (reflection) with the row of the Lean class table that covers each name
                      hints     what the SOURCE says about an operation, by `ast` and docstrings:
                                  foreachInplace   the method body calls torch._foreach_<op>_   (fused in-place kernel on the leaves)
                                  foreachOut       the method body calls torch._foreach_<op>    (fused out-of-place kernel) and no in-place one
                                  docInplaceTwin   the docstring says "in-place version of" / "... in-place."
                                  docView          the docstring says it returns a view
                                  docShallow       the docstring says "shallow copy"
                                  lockBlocked      the method is decorated @lock_blocked (a structural write)
                      shapes    sha1 of the normalised `ast` of every function transcribed by Model/C07*.lean
  Gen/C19Shapes.lean  shapes    the same for the functions transcribed by Model/C19*.lean

Theorems of Props/C07.lean / Props/C19.lean consume them: a new public method without a table row, an operation whose
source-derived hint contradicts its table class, or an edit of a transcribed function breaks an obligation.
"""
from __future__ import annotations

import ast
import hashlib
import re

from common import REPO
from gen_tables import HEADER, lean_str

C07_FUNCS = [
    ("tensordict/base.py", "TensorDictBase", "_convert_inplace"),
    ("tensordict/base.py", "TensorDictBase", "set"),
    ("tensordict/base.py", "TensorDictBase", "set_"),
    ("tensordict/base.py", "TensorDictBase", "update_"),
    ("tensordict/base.py", "TensorDictBase", "to_tensordict"),
    ("tensordict/base.py", "TensorDictBase", "clone"),
    ("tensordict/base.py", "TensorDictBase", "copy"),
    ("tensordict/_td.py", "TensorDict", "_set_str"),
    ("tensordict/_td.py", "TensorDict", "_clone"),
    ("tensordict/_td.py", "TensorDict", "contiguous"),
    ("tensordict/_td.py", "_SubTensorDict", "_set_at_str"),
    ("tensordict/_td.py", "_SubTensorDict", "_index_tensordict"),
    ("tensordict/_td.py", "_SubTensorDict", "_select"),
    ("tensordict/_td.py", "_SubTensorDict", "_exclude"),
    ("tensordict/_td.py", "_SubTensorDict", "replace"),
    ("tensordict/_lazy.py", "LazyStackedTensorDict", "expand"),
    ("tensordict/_lazy.py", "LazyStackedTensorDict", "_flatten_keys_outplace"),
    ("tensordict/_lazy.py", "LazyStackedTensorDict", "contiguous"),
]
C19_FUNCS = [
    ("tensordict/_td.py", "TensorDict", "_add_batch_dim"),
    ("tensordict/_td.py", "TensorDict", "_remove_batch_dim"),
    ("tensordict/_td.py", "TensorDict", "_maybe_remove_batch_dim"),
    ("tensordict/_lazy.py", "LazyStackedTensorDict", "_add_batch_dim"),
    ("tensordict/_lazy.py", "LazyStackedTensorDict", "_cached_add_batch_dims"),
    ("tensordict/_lazy.py", "LazyStackedTensorDict", "_remove_batch_dim"),
    ("tensordict/_lazy.py", "LazyStackedTensorDict", "_maybe_remove_batch_dim"),
    ("tensordict/nn/functional_modules.py", None, "_process_batched_inputs"),
    ("tensordict/nn/functional_modules.py", None, "_create_batched_inputs"),
    ("tensordict/nn/functional_modules.py", None, "_unwrap_batched"),
]

_TREES = {}


def _tree(rel):
    if rel not in _TREES:
        _TREES[rel] = ast.parse((REPO / rel).read_text())
    return _TREES[rel]


def _find(rel, cls, name):
    tree = _tree(rel)
    if cls is None:
        for n in ast.walk(tree):
            if isinstance(n, ast.FunctionDef) and n.name == name:
                return n
        return None
    for n in tree.body:
        if isinstance(n, ast.ClassDef) and n.name == cls:
            for m in n.body:
                if isinstance(m, ast.FunctionDef) and m.name == name:
                    return m
    return None


def shape_hash(fn: ast.FunctionDef | None) -> str:
    """sha1 of the function's ast with docstring, comments, annotations and positions removed"""
    if fn is None:
        return "missing"
    fn = ast.parse(ast.unparse(fn)).body[0]
    if fn.body and isinstance(fn.body[0], ast.Expr) and isinstance(getattr(fn.body[0], "value", None), ast.Constant) and isinstance(fn.body[0].value.value, str):
        fn.body = fn.body[1:] or [ast.Pass()]
    fn.returns = None
    for a in ast.walk(fn):
        if isinstance(a, ast.arg):
            a.annotation = None
    return hashlib.sha1(ast.dump(fn, annotate_fields=False, include_attributes=False).encode()).hexdigest()[:16]


def shapes(funcs):
    return [(f"{rel}:{cls + '.' if cls else ''}{name}", shape_hash(_find(rel, cls, name))) for rel, cls, name in funcs]


def api_names():
    from tensordict import TensorDict
    api = [n for n in dir(TensorDict) if not n.startswith("_")]
    du = [n for n in dir(TensorDict) if n.startswith("__") and n.endswith("__") and callable(getattr(TensorDict, n)) and n not in dir(object)]
    du += [n for n in ("__eq__", "__ne__", "__lt__", "__le__", "__gt__", "__ge__", "__setstate__") if n in dir(TensorDict)]
    return sorted(set(api + du))


def source_hints():
    """(name, hint) pairs from the source of TensorDictBase / TensorDict"""
    out = []
    seen = set()
    for rel, cls in (("tensordict/_td.py", "TensorDict"), ("tensordict/base.py", "TensorDictBase")):
        for n in _tree(rel).body:
            if not (isinstance(n, ast.ClassDef) and n.name == cls):
                continue
            for m in n.body:
                if not isinstance(m, ast.FunctionDef) or (m.name.startswith("_") and not m.name.startswith("__")) or m.name in seen:
                    continue
                seen.add(m.name)
                calls = {c.func.attr for c in ast.walk(m) if isinstance(c, ast.Call) and isinstance(c.func, ast.Attribute)
                         and isinstance(c.func.value, ast.Name) and c.func.value.id == "torch" and c.func.attr.startswith("_foreach_")}
                inpl = {c for c in calls if c.endswith("_")}
                if inpl:
                    out.append((m.name, "foreachInplace"))
                elif calls:
                    out.append((m.name, "foreachOut"))
                decos = {(d.id if isinstance(d, ast.Name) else getattr(d, "attr", getattr(getattr(d, "func", None), "id", ""))) for d in m.decorator_list}
                if "lock_blocked" in decos:
                    out.append((m.name, "lockBlocked"))
                doc = (ast.get_docstring(m) or "").strip()
                first = doc.split("\n\n")[0].replace("\n", " ").lower()
                if re.search(r"in-place version of|the in-place version|^computes .* in-place\.$", first):
                    out.append((m.name, "docInplaceTwin"))
                if re.search(r"returns a view|return a view", first):
                    out.append((m.name, "docView"))
                if "shallow copy" in first:
                    out.append((m.name, "docShallow"))
    return sorted(set(out))


def gen_api(table_rows: list[str]) -> str:
    """`table_rows`: the keys of the Lean class table (asked from the compiled driver)"""
    rows = set(table_rows)
    api_rows = []
    for n in api_names():
        cand = n if n in rows else next((r for r in sorted(rows) if r.startswith(n + "/") or r.startswith(n + "%")), "")
        api_rows.append((n, cand))
    hints = [(n if n in rows else next((r for r in sorted(rows) if r.startswith(n + "/")), n), h) for n, h in source_hints()]

    def pairs(xs):
        return "[\n  " + ",\n  ".join(f"({lean_str(a)}, {lean_str(b)})" for a, b in xs) + "]"
    return (HEADER.replace("gen_tables.py", "c07_gen.py") + "namespace TdVerif.Gen.C07\n\n"
            f"def apiRows : List (String × String) := {pairs(api_rows)}\n\n"
            f"def hints : List (String × String) := {pairs(hints)}\n\n"
            f"def shapes : List (String × String) := {pairs(shapes(C07_FUNCS))}\n\nend TdVerif.Gen.C07\n")


def gen_c19_shapes() -> str:
    def pairs(xs):
        return "[\n  " + ",\n  ".join(f"({lean_str(a)}, {lean_str(b)})" for a, b in xs) + "]"
    return (HEADER.replace("gen_tables.py", "c07_gen.py") + "namespace TdVerif.Gen.C19\n\n"
            f"def shapes : List (String × String) := {pairs(shapes(C19_FUNCS))}\n\nend TdVerif.Gen.C19\n")
