"""C15 / C16 — a stream must not take the whole check down when the LIBRARY raises while a case is being prepared.

`guarded(run, label, fn, *args)` runs one stream.  An exception that escapes it is
  * a violation (site `setup:<label>`) when the innermost frame is tensordict / torch code: a library call the harness
    makes on valid data (build an entry, read it back, ...) raised; the rest of that stream is skipped, the others run;
  * re-raised (-> INFRA, exit 2) when it was raised by harness code itself, by the driver, or is a timeout.
"""
from __future__ import annotations

import os
import traceback

from common import Infra, err_class


def guarded(run, label, fn, *args):
    try:
        return fn(*args)
    except (Infra, TimeoutError, KeyboardInterrupt, SystemExit):
        raise
    except Exception as ex:  # noqa: BLE001
        tb = traceback.extract_tb(ex.__traceback__)
        last = tb[-1].filename if tb else ""
        in_library = ("/tensordict/" in last or "/torch/" in last) and "/harness/" not in last
        if not in_library:
            raise
        where = next((f"{os.path.basename(fr.filename)}:{fr.lineno}" for fr in reversed(tb) if "/harness/" in fr.filename), "?")
        lib = f"{os.path.basename(last)}:{tb[-1].lineno}"
        run.oracle_fail("setup:" + label, {"stream": label, "harness_line": where, "library_line": lib},
                        f"a library call made while preparing / reading a case raised {type(ex).__name__}: {str(ex)[:160]} "
                        f"(the rest of the stream `{label}` was not run)", fingerprint=f"setup:{label}:{err_class(ex)}")
        return None
