#!/bin/bash
# run_all.sh [tier] [seed]: run every check registered in MANIFEST.json, print the last line of each
T="${1:-quick}"; S="${2:-0}"; cd /verif
for P in $(/venv/bin/python -c "import json;print(' '.join(c['property_id'] for c in json.load(open('MANIFEST.json'))['checks']))"); do
  VERIF_SEED=$S timeout 3600 ./check $P --tier $T > /tmp/run_all_$P.log 2>&1; RC=$?
  echo "$P exit=$RC $(grep -c KNOWN-FINDING /tmp/run_all_$P.log) known | $(grep -E '^(OK|VIOLATION|INFRA)' /tmp/run_all_$P.log | tail -1 | cut -c1-160)"
done
