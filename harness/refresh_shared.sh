#!/bin/bash
# refresh_shared.sh <letter>: copy the integrator-owned shared files (and every OTHER property's merged files) from /verif into /tmp/b_<letter>/verif
# without touching the files the builder owns (its own properties' files are newer in its copy and are skipped by --update on mtime... we use an explicit exclude list instead)
X="$1"; D=/tmp/b_$X/verif
declare -A OWN=( [K]="C18|c18|PyFuns|DualHelpers|DualCoverage|InferSize|CheckKeys|ParseTo|py2lean|gen_tables|Compile.lean|Key.lean|SliceSpec" [A]="C02|c02|C17|c17|CtxTable" [B]="C03|c03" [C]="C08|c08" [D]="C04|c04|C01|c01" [E]="C05|c05|C06|c06|LockTable|CacheTable" [F]="C09|c09|C20|c20" [G]="C12|c12|C11|c11|C10|c10|Dtypes" [H]="C13|c13|C14|c14" [I]="C15|c15|C16|c16|TcTables" [J]="C07|c07|C19|c19" )
cd /verif
git ls-files | grep -v -E "^(evidence/|seeded/|DESIGN.md|MANIFEST.json)" | grep -v -E "${OWN[$X]}" | cat - <(git ls-files | grep -E "^lean/(DriverC[0-9]+\.lean|lakefile\.toml)$") | sort -u | while read f; do mkdir -p "$D/$(dirname "$f")"; cp "$f" "$D/$f"; done
echo "refreshed $D (kept your own files: ${OWN[$X]}); known_findings.json was overwritten with the integrator's — re-add your pending entries"
