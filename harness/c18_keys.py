"""C18: call-level behaviour of `unravel_key_list` (two C++ overloads + pybind dispatch), `unravel_keys`,
and the specification vocabulary (`leaves`, `Valid`) of the key theorems.

Streams (model = Model/Key.lean through the driver)
  keylist_cpp / keylist_py   unravel_key_list(arg) for arg a list / tuple of nested keys / another object
  keys_cpp / keys_py         unravel_keys(*args) for 0..3 positional keys
  keyspec                    Lean `validB` / `leaves` vs an independent Python walker, and
                             `_unravel_key_to_tuple(k) == leaves(k)` for valid k on the recompiled C++ (theorem unravel_tup_valid)
  key_idempotent             unravel_key(unravel_key(k)) == unravel_key(k) on the recompiled C++ (theorem unravel_key_idempotent)
oracle
  unravel_key_list / unravel_keys   native result == Python-path result (or both raise)
"""
from __future__ import annotations

import unittest.mock as mock

from common import parse_sx


def key_sx(k) -> str:
    if isinstance(k, str):
        return f"(s {k})"
    if isinstance(k, tuple):
        return "(t" + "".join(" " + key_sx(x) for x in k) + ")"
    return "bad"


def canon_one(r):
    if isinstance(r, str):
        return ["s", r]
    return ["t"] + list(r)


def call_list(f, arg):
    try:
        r = f(arg)
    except Exception as e:
        return "err:" + type(e).__name__     # the class is part of the result (both paths must raise the same)
    return ["ok"] + [canon_one(x) for x in r]


def call_keys(f, args):
    try:
        r = f(*args)
    except Exception as e:
        return "err:" + type(e).__name__
    return canon_one(r)


def py_leaves(k):
    if isinstance(k, str):
        return [k]
    if isinstance(k, tuple):
        out = []
        for x in k:
            out += py_leaves(x)
        return out
    return []


def py_valid(k, top=True):
    if isinstance(k, str):
        return True
    if not isinstance(k, tuple):
        return False
    for x in k:
        if isinstance(x, str):
            continue
        if not py_valid(x, False) or not py_leaves(x):
            return False
    return True


class _Gen:
    """an iterable that is neither a list nor a tuple"""

    def __init__(self, items):
        self.items = items

    def __iter__(self):
        return iter(self.items)


def key_calls(run, C, pool):
    import tensordict.utils as U

    drv = run._drv
    rng = run.rng
    n = 1500 if run.tier == "quick" else 20000
    # ---- unravel_key_list
    cases = [("list", []), ("tuple", []), ("tuple", ["a", "b"]), ("list", [("a", ("b",)), "c"]), ("tuple", [("a",), 1]), ("list", [()])]
    for _ in range(n):
        kind = rng.choice(["list", "tuple"])
        cases.append((kind, [rng.choice(pool) for _ in range(rng.randint(0, 4))]))
    others = ["ab", {"a": 1}, {"a"}, None, 3, _Gen(["a"]), {"a": 1}.keys(), "", b"a", range(2)]
    reqs = [f"(c18.keylist {kind}" + "".join(" " + key_sx(k) for k in ks) + ")" for kind, ks in cases]
    reqs += ["(c18.keylist other)"] * len(others)
    answers = drv.ask_many(reqs)
    args = [(list(ks) if kind == "list" else tuple(ks)) for kind, ks in cases] + others
    kinds = [kind for kind, _ in cases] + ["other"] * len(others)
    with mock.patch.object(U, "is_compiling", lambda: True):
        py = [call_list(U.unravel_key_list, a) for a in args]
    cc = [call_list(C.unravel_key_list, a) for a in args]
    for i, (a, kind) in enumerate(zip(args, kinds)):
        m = parse_sx(answers[i])
        case = [kind, reqs[i]] if kind != "other" else [kind, type(a).__name__]
        run.case(("keylist", kind, reqs[i] if kind != "other" else type(a).__name__))
        run.count("keylist.kind", kind)
        run.count("keylist.outcome", cc[i] if isinstance(cc[i], str) else "ok")
        run.corr("keylist_cpp", case, cc[i], m[0])
        run.corr("keylist_py", case, py[i], m[1])
        if cc[i] != py[i]:
            run.oracle_fail("unravel_key_list", case, f"python={py[i]} c++={cc[i]}", "keylist:" + kind)
        else:
            run.oracle_ok("unravel_key_list")
    run.sample({"stream": "keylist", "case": reqs[3], "model": answers[3]})
    # ---- unravel_keys(*args)
    acases = [[], ["a"], [("a", "b")], ["a", "b"], [(("a",),)], [("a", ("b", "c")), "d"], [1], [()]]
    for _ in range(n // 3):
        acases.append([rng.choice(pool) for _ in range(rng.choice([1, 1, 1, 0, 2, 3]))])
    reqs = ["(c18.keys" + "".join(" " + key_sx(k) for k in ks) + ")" for ks in acases]
    answers = drv.ask_many(reqs)
    with mock.patch.object(U, "is_compiling", lambda: True):
        py = [call_keys(U.unravel_keys, ks) for ks in acases]
    cc = [call_keys(C.unravel_keys, ks) for ks in acases]
    for i, ks in enumerate(acases):
        m = parse_sx(answers[i])
        run.case(("unravel_keys", reqs[i]))
        run.count("unravel_keys.arity", len(ks))
        run.corr("keys_cpp", reqs[i], cc[i], m[0])
        run.corr("keys_py", reqs[i], py[i], m[1])
        if cc[i] != py[i]:
            run.oracle_fail("unravel_keys", reqs[i], f"python={py[i]} c++={cc[i]}", "unravel_keys")
        else:
            run.oracle_ok("unravel_keys")
    # ---- specification vocabulary + the two spec theorems on the real C++
    sub = pool if len(pool) <= 4000 else pool[:4000]
    answers = drv.ask_many([f"(c18.keyspec {key_sx(k)})" for k in sub])
    for k, a in zip(sub, answers):
        m = parse_sx(a)
        v = py_valid(k)
        run.corr("keyspec", key_sx(k), ["valid" if v else "invalid", py_leaves(k)], m)
        run.count("keyspec.valid", v)
        if v:
            run.corr("keyspec", key_sx(k), list(C._unravel_key_to_tuple(k)), py_leaves(k))
        try:
            r = C.unravel_key(k)
        except Exception:
            continue
        run.corr("key_idempotent", key_sx(k), canon_one(C.unravel_key(r)), canon_one(r))
