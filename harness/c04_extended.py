"""C04 extended domain (oracle only, no model): the same kind of histories on
  * a LazyStackedTensorDict over two members with homogeneous keys (tensor leaves of batch [2]), and
  * a tensordict held in a tensorclass field, manipulated through the tensorclass with keys prefixed by the field.
Judged by the plain-dict replay of c04_ops.apply_oracle exactly as the modelled stream."""
from __future__ import annotations

import torch

import c04_ops as O


def _detn(skel):
    """lazy stacks: non-tensor leaves become tensor leaves (NonTensorStack is C16's subject)"""
    if skel[0] == "d":
        return ["d", [[k, _detn(v)] for k, v in skel[1]]]
    return ["t", skel[1]]


def _map_op_vals(op, f):
    op = list(op)
    if op[0] in ("set", "setdefault"):
        op[2] = f(op[2])
    elif op[0] == "update":
        op[1] = [[k, f(v)] for k, v in op[1]]
    return op


# --------------------------------------------------------------------------- lazy stack
def ls_build(skel):
    from tensordict import TensorDict
    if skel[0] == "t":
        return torch.tensor(skel[1])
    return TensorDict({k: ls_build(v) for k, v in skel[1]}, batch_size=[])


def ls_val(skel):
    """a value for a stack of two members"""
    from tensordict import TensorDict
    if skel[0] == "t":
        return torch.full((2,), skel[1])
    return TensorDict({k: ls_val(v) for k, v in skel[1]}, batch_size=[2])


def ls_payload(skel):
    if skel[0] == "t":
        return torch.full((2,), skel[1])
    return {k: ls_payload(v) for k, v in skel[1]}


def ls_skel(x):
    if isinstance(x, torch.Tensor):
        return ["t", int(x.reshape(-1)[0]) if x.numel() else -1]
    return ["d", [[k, ls_skel(v)] for k, v in x.items()]]


def ls_apply(td, op):
    import c04_ops
    kind = op[0]
    res = None
    try:
        with c04_ops.time_limit(10):
            if kind == "set":
                td.set(op[1], ls_val(op[2])); out = ["ok"]
            elif kind == "del":
                td.del_(op[1]); out = ["ok"]
            elif kind == "pop":
                r = td.pop(op[1], None) if op[2] else td.pop(op[1])
                out = ["ok", "none" if r is None else ls_skel(r)]
            elif kind == "rename":
                td.rename_key_(op[1], op[2], safe=op[3]); out = ["ok"]
            elif kind == "setdefault":
                r = td.setdefault(op[1], ls_val(op[2]))
                out = ["ok", "none" if r is None else ls_skel(r)]
            elif kind == "update":
                td.update({k: ls_payload(v) for k, v in op[1]}); out = ["ok"]
            elif kind == "select":
                r = td.select(*op[1], strict=op[2], inplace=op[3]); out = ["ok"]; res = None if op[3] else r
            elif kind == "exclude":
                r = td.exclude(*op[1], inplace=op[2]); out = ["ok"]; res = None if op[2] else r
            elif kind == "flatten":
                r = td.flatten_keys(op[1], inplace=op[2]); out = ["ok"]; res = None if op[2] else r
            elif kind == "unflatten":
                r = td.unflatten_keys(op[1], inplace=op[2]); out = ["ok"]; res = None if op[2] else r
            elif kind == "clear":
                td.clear(); out = ["ok"]
            else:
                return None, None
    except TimeoutError:
        raise
    except Exception as e:  # noqa
        out = ["err", c04_ops.err_class(e) if not isinstance(e, AttributeError) else "attr"]
    return out, res


# --------------------------------------------------------------------------- tensorclass-held
_BOX = None


def box_cls():
    global _BOX
    if _BOX is None:
        from tensordict import TensorDict, tensorclass

        @tensorclass
        class C04Box:
            td: TensorDict
        _BOX = C04Box
    return _BOX


def bx_skel(box):
    td = box.get("td", None)
    return ["d", []] if td is None else O.skel_of(td)


def pk(sp):
    """the same key below the tensorclass field (itself a legal nested spelling)"""
    return ("td", sp)


def bx_apply(box, op):
    kind = op[0]
    res = None
    try:
        with O.time_limit(10):
            if kind == "set":
                box.set(pk(op[1]), O.build_impl(op[2])); out = ["ok"]
            elif kind == "del":
                box.del_(pk(op[1])); out = ["ok"]
            elif kind == "pop":
                r = box.pop(pk(op[1]), None) if op[2] else box.pop(pk(op[1]))
                out = ["ok", "none" if r is None else O.skel_of(r)]
            elif kind == "rename":
                box.rename_key_(pk(op[1]), pk(op[2]), safe=op[3]); out = ["ok"]
            elif kind == "setdefault":
                r = box.setdefault(pk(op[1]), O.build_impl(op[2]))
                out = ["ok", "none" if r is None else O.skel_of(r)]
            elif kind == "update":
                box.update({pk(k): O.build_payload(v) for k, v in op[1]}); out = ["ok"]
            elif kind == "select" and op[1]:
                r = box.select(*[pk(k) for k in op[1]], strict=op[2], inplace=op[3]); out = ["ok"]; res = None if op[3] else _BoxRes(r)
            elif kind == "exclude":
                r = box.exclude(*[pk(k) for k in op[1]], inplace=op[2]); out = ["ok"]; res = None if op[2] else _BoxRes(r)
            else:
                return None, None
    except TimeoutError:
        raise
    except Exception as e:  # noqa
        out = ["err", O.err_class(e) if not isinstance(e, AttributeError) else "attr"]
    return out, res


class _BoxRes:
    """an out-of-place result of the tensorclass: what counts is the tensordict it holds"""
    def __init__(self, box):
        self.box = box


# --------------------------------------------------------------------------- runner
def _erase(out):
    return ["err"] if out[0] == "err" else out


def model_stream(run, drv, recs):
    """EXACT comparison with the Lean model (Model/C04Tree.lean `step`, the transcription of TensorDict's mapping code):
    a lazy stack acts on each of its members as a TensorDict does (tensordict/_lazy.py: _set_str/_set_tuple, del_,
    rename_key_, _select, _exclude, _flatten_keys_outplace, ... are loops over `self.tensordicts`), and a tensordict held in a
    tensorclass is reached through the class's `_tensordict` with the field name as first key component. Compared: the
    state of EVERY member / of the held tensordict afterwards (entries, order, empty nested tensordicts), ok-vs-raised, and the
    out-of-place results."""
    from check_C04 import ask_batched
    from common import Infra, parse_sx
    reqs = [(f"(c04.member {O.sx_skel(r['pre'])} {O.sx_op(r['op'])})" if r["kind"] == "lazy-stack"
             else f"(c04.step {O.sx_skel(r['pre'])} {O.sx_op(r['op'])} ())") for r in recs]
    for r, a, q in zip(recs, ask_batched(drv, reqs), reqs):
        if a == "(bad-op)":
            raise Infra("driver rejected " + q[:300])
        v = parse_sx(a)
        mstate = O.skel_from_sx(v[0])
        o = v[1]
        if o[0] == "err":
            mo, mres = ["err"], None
        elif o[0] == "res":
            mo, mres = ["ok"], [O.skel_from_sx(x) for x in o[1:]]
        elif o[0] == "val":
            mo, mres = ["ok"], None
        else:
            mo, mres = ["ok"], None
        kind = r["kind"]
        for i, st in enumerate(r["states"]):
            run.corr(kind + ".state", dict(r["case"], member=i), st, mstate)
        run.corr(kind + ".outcome", r["case"], [r["out"][0]], mo)
        if r["res"] is not None and mres is not None:
            for i, rs in enumerate(r["res"]):
                run.corr(kind + ".result", dict(r["case"], member=i), rs, mres[0] if mres else None)


def run_extended(run, rng, drv=None):
    from check_C04 import check_step, nt_hazard
    from tensordict import LazyStackedTensorDict
    nh = 60 if run.tier == "quick" else 600
    recs = []
    for kind in ("lazy-stack", "tensorclass"):
        for hid in range(nh):
            ids = O.Ids()
            init = O.gen_val(rng, ids, depth=0)
            if init[0] != "d":
                init = ["d", [["a", init]]]
            if kind == "lazy-stack":
                init = _detn(init)
                obj = LazyStackedTensorDict.lazy_stack([ls_build(init), ls_build(init)])
                skel = ls_skel
                apply = ls_apply
            else:
                obj = box_cls()(td=O.build_impl(init), batch_size=[])
                skel = bx_skel
                apply = bx_apply
            d = O.o_build(init)
            for stepno in range(rng.randint(1, 25)):
                op = O.gen_op(rng, ids, [p for p, _ in O.o_paths(d)])
                if kind == "lazy-stack":
                    op = _map_op_vals(op, _detn)
                if nt_hazard(d, op):
                    continue
                # container-specific corners left to C08 / C15 (listed in the report as observations):
                if op[0] == "update":
                    ks = [O.unravel(k) for k, _ in op[1]]
                    if any(O.o_through_leaf(d, k) for k in ks):
                        continue  # both containers fold the payload into a tensordict first: the leaf is overwritten (TensorDict.update raises KeyError)
                    if any(a != b and a[:len(b)] == b for a in ks for b in ks) or len(set(ks)) < len(ks):
                        continue  # ... with set (not merge) semantics between the payload's own prefix-related keys
                if kind == "tensorclass" and op[0] == "setdefault":
                    continue      # the tensorclass wrapper tries to re-wrap the returned entry as the class
                pre = skel(obj)
                try:
                    mpre = O.skel_of(obj.tensordicts[0]) if kind == "lazy-stack" else pre
                except Exception:  # noqa
                    mpre = None
                out, res = apply(obj, op)
                if out is None:
                    continue
                try:
                    post = skel(obj)
                except TimeoutError:
                    raise
                except Exception as e:  # noqa  (e.g. cyclic nesting, members that stopped being homogeneous)
                    run.oracle_fail(kind, {"pre": pre, "op": op}, f"the mapping cannot be walked after the call: {type(e).__name__}: {str(e)[:120]}", "unobservable:" + op[0])
                    break
                R = O.apply_oracle(d, op)
                run.count("ops." + kind, op[0])
                case = {"container": kind, "history": hid, "step": stepno, "pre": pre, "op": op}
                resk = None
                if res is not None:
                    class _R:      # check_step calls skel_of on results: pre-compute with the container's own walker
                        pass
                    resk = res
                ok = _check(run, kind, case, pre, op, R, out, post, resk, skel)
                if not ok:
                    break
                # for the exact comparison with the model
                try:
                    if kind == "lazy-stack":
                        states = [O.skel_of(m) for m in obj.tensordicts]
                        rs = None
                        if res is not None and hasattr(res, "tensordicts"):
                            rs = [O.skel_of(m) for m in res.tensordicts]
                    else:
                        states = [post]
                        rs = [bx_skel(res.box)] if isinstance(res, _BoxRes) else None
                    if mpre is not None:
                        recs.append({"kind": kind, "case": case, "pre": mpre, "op": op, "states": states, "out": out, "res": rs})
                except Exception:  # noqa
                    pass
                # key views of the container against the dict
                dd = O.o_build(post)
                try:
                    got = sorted([k] if isinstance(k, str) else list(k) for k in (obj.keys(True) if kind == "lazy-stack" else obj.get("td").keys(True)))
                    want = sorted(list(p) for p, _ in O.o_paths(dd))
                    if got != want:
                        run.oracle_fail(kind, case, f"keys(True)={got}, dict has {want}", "keys-set")
                        break
                    run.oracle_ok(kind + ".keys")
                except AttributeError:
                    pass
                d = dd
    if drv is not None:
        model_stream(run, drv, recs)


def _check(run, site, case, pre, op, R, out, post, res, skel):
    """check_step with the container's own skeleton walker for out-of-place results"""
    import check_C04
    old = O.skel_of
    try:
        if site == "lazy-stack":
            O.skel_of = skel
        else:
            O.skel_of = lambda x: bx_skel(x.box) if isinstance(x, _BoxRes) else old(x)
        return check_C04.check_step(run, site, case, pre, op, R, out, post, res)
    finally:
        O.skel_of = old
