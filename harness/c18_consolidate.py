"""C18: `consolidate` (tensordict/base.py) — the contiguity test before `v.view(-1).view(torch.uint8)` on both branches
of its `is_compiling()` test (forced by patching `tensordict.base.is_compiling`).  Model = Model/Consolidate.lean.
Streams  consolidate_spec     torch's `is_contiguous()` and the success of `t.view(-1).view(torch.uint8)` vs the Lean
                              specification (`isContig`, `viewU8Ok`) on `as_strided` tensors
         consolidate_eager / consolidate_compile   does `TensorDict({"a": t}).consolidate()` go through? vs `okEager` / `okCompile`
oracle   consolidate_leaf     both branches go through (the property); the single-element / non-unit-stride class is the
                              open finding C18-consolidate-unit-stride (theorem consolidate_compile_leaf_fails_iff)."""
from __future__ import annotations

import unittest.mock as mock

import torch

from common import parse_sx, sx


def consolidate_leaves(run):
    import tensordict.base as B
    from tensordict import TensorDict

    drv = run._drv
    rng = run.rng
    base = torch.arange(4096)
    cases = [((1,), (2,), 0), ((1, 1), (5, 3), 0), ((1, 1), (5, 1), 0), ((3, 1), (1, 5), 0), ((), (), 3), ((2, 3), (3, 1), 0),
             ((2, 3), (1, 2), 0), ((1,), (1,), 4), ((1, 1, 1), (4, 4, 4), 0), ((2, 1, 3), (3, 11, 1), 0)]
    n = 250 if run.tier == "quick" else 4000
    for _ in range(n):
        nd = rng.randint(0, 3)
        sizes = [rng.choice([1, 1, 2, 3]) for _ in range(nd)]
        canon = []
        e = 1
        for s in reversed(sizes):
            canon.insert(0, e)
            e *= s
        kind = rng.choice(["canon", "canon", "ones", "ones", "random", "transposed"])
        strides = list(canon)
        if kind == "ones":
            strides = [st if sz != 1 else rng.choice([1, 2, 7, st]) for sz, st in zip(sizes, strides)]
        elif kind == "random":
            strides = [rng.choice([1, 2, 3, 6]) for _ in sizes]
        elif kind == "transposed" and nd >= 2:
            strides = strides[::-1]
        cases.append((tuple(sizes), tuple(strides), rng.choice([0, 0, 1, 5])))
    answers = drv.ask_many([sx("c18.consolidate_leaf", list(sz), list(st), off) for sz, st, off in cases])
    for (sz, st, off), ans in zip(cases, answers):
        m = [x == "true" for x in parse_sx(ans)]
        t = base.as_strided(sz, st, off)
        contig = bool(t.is_contiguous())
        case = [list(sz), list(st), off]
        run.case(("consolidate_leaf", sz, st, off))
        spec = [contig]
        if contig:
            try:
                t.view(-1).view(torch.uint8)
                spec.append(True)
            except RuntimeError:
                spec.append(False)
            run.corr("consolidate_spec", case, spec, m[:2])
        else:
            run.corr("consolidate_spec", case, spec, m[:1])
        outs = []
        for comp in (False, True):
            td = TensorDict({"a": t}, batch_size=[])
            with mock.patch.object(B, "is_compiling", lambda c=comp: c):
                try:
                    r = td.consolidate()
                    outs.append(bool((r.get("a") == t).all()))
                except RuntimeError:
                    outs.append(False)
        run.count("consolidate_leaf.class", "single-nonunit" if (contig and len(sz) > 0 and t.numel() == 1 and st[-1] != 1) else ("noncontig" if not contig else "plain"))
        run.corr("consolidate_eager", case, outs[0], m[2])
        run.corr("consolidate_compile", case, outs[1], m[3])
        if outs[0] != outs[1]:
            run.oracle_fail("consolidate_leaf", case, f"eager branch ok={outs[0]} compile branch ok={outs[1]}",
                            "consolidate_leaf:" + ("single-element-nonunit-stride" if (t.numel() == 1 and len(sz) > 0 and st[-1] != 1) else "other"))
        else:
            run.oracle_ok("consolidate_leaf")
    run.sample({"stream": "consolidate_leaf", "case": [[1], [2], 0], "model": drv.ask(sx("c18.consolidate_leaf", [1], [2], 0))})
