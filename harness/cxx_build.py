"""Compile tensordict/csrc/*.cpp from /repo's *working tree* into /verif/.build and load it
under a private name, so the C++ helpers compared with the Lean model are what the source says now
(not the pre-built tensordict/_C*.so)."""
from __future__ import annotations

import hashlib
import importlib.machinery
import importlib.util
import subprocess
import sysconfig
from pathlib import Path

from common import BUILD, REPO, Infra


def build_and_load():
    import torch

    srcs = sorted((REPO / "tensordict" / "csrc").glob("*.cpp")) + sorted((REPO / "tensordict" / "csrc").glob("*.h"))
    h = hashlib.sha256()
    for s in srcs:
        h.update(s.name.encode())
        h.update(s.read_bytes())
    tag = h.hexdigest()[:16]
    BUILD.mkdir(exist_ok=True)
    d = BUILD / f"cxx_{tag}"
    so = d / "_C.so"
    if not so.exists():
        for old in BUILD.glob("cxx_*"):
            subprocess.run(["rm", "-rf", str(old)])
        d.mkdir(parents=True)
        tinc = Path(torch.__file__).parent / "include"
        cmd = ["g++", "-O1", "-shared", "-fPIC", "-std=c++17", f"-I{tinc}", f"-I{sysconfig.get_paths()['include']}"]
        cmd += [str(s) for s in srcs if s.suffix == ".cpp"] + ["-o", str(so)]
        p = subprocess.run(cmd, capture_output=True, text=True)
        if p.returncode != 0:
            raise Infra("C++ helper does not compile from the working tree:\n" + p.stderr[-2000:])
    loader = importlib.machinery.ExtensionFileLoader("_C", str(so))
    spec = importlib.util.spec_from_loader("_C", loader)
    mod = importlib.util.module_from_spec(spec)
    loader.exec_module(mod)
    return mod
