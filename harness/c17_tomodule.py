"""C17, `to_module` as a context manager (oracle only; the Lean model has no forward semantics for it — C13 models the swap itself):
on normal exit the MODULE gets back the very objects and values it had, and the tensordict that was swapped in holds what the module held
at the end of the block — in place when it is locked — for every module of a small zoo (plain layers, a class with its own `__setattr__`
= the slow path, a sub-module registered under two names, a buffer re-assigned out of place inside the block), `inplace` True/False,
positional / keyword spelling, locked / unlocked tensordicts."""
from __future__ import annotations

import torch
from torch import nn

from common import err_class, time_limit


class SetattrLinear(nn.Linear):
    # a class-level __setattr__ disables to_module's `__dict__` fast path
    def __setattr__(self, key, value):
        return super().__setattr__(key, value)


class Counter(nn.Module):
    def __init__(self, cls=nn.Linear):
        super().__init__()
        self.lin = cls(2, 2)
        self.register_buffer("steps", torch.zeros(()))

    def forward(self, x):
        self.steps = self.steps + 1          # re-assigned out of place inside the block
        return self.lin(x)


def zoo(kind):
    torch.manual_seed(0)
    if kind == "linear":
        return nn.Linear(2, 2)
    if kind == "seq":
        return nn.Sequential(nn.Linear(2, 3), nn.Linear(3, 2))
    if kind == "setattr":
        return nn.Sequential(nn.Linear(2, 3), SetattrLinear(3, 2))
    if kind == "counter":
        return nn.Sequential(Counter(), nn.Linear(2, 2))
    if kind == "counter_setattr":
        return nn.Sequential(Counter(SetattrLinear), nn.Linear(2, 2))
    if kind == "tied":
        shared = Counter()
        return nn.Sequential(shared, nn.Sequential(shared))
    if kind == "tied_plain":
        shared = nn.Linear(2, 2)
        return nn.Sequential(shared, nn.Sequential(shared, nn.Linear(2, 2)))
    raise ValueError(kind)


def mod_get(net, path):
    """the attribute of the module tree at a key path of the tensordict (parameters, buffers or plain tensors set by to_module)"""
    path = (path,) if isinstance(path, str) else path
    obj = net
    for name in path:
        obj = getattr(obj, name)
    return obj


def mod_read(net, keys):
    return {k: mod_get(net, k).detach().clone() for k in keys}


KINDS = ["linear", "seq", "setattr", "counter", "counter_setattr", "tied", "tied_plain"]


def run_case(kind, inplace, locked, spelling, edit):
    """returns None when everything holds, else (fingerprint suffix, message); two blocks in sequence on the same tensordict:
    the second starts from what the first left"""
    from tensordict import TensorDict
    net = zoo(kind)
    params = TensorDict.from_module(net).data.clone()
    for v in params.values(True, True):
        v.add_(100.0)
    if locked:
        params.lock_()
    for rnd in ("", "second-block:"):
        bad = _block(net, params, inplace, locked, spelling, edit)
        if bad is not None:
            return rnd + bad[0], rnd + bad[1]
    return None


def _block(net, params, inplace, locked, spelling, edit):
    from tensordict import TensorDict
    before = TensorDict.from_module(net).data.clone()
    objects = dict(list(net.named_parameters()) + list(net.named_buffers()))
    start = params.clone()
    kwargs = {}
    if inplace == "state_dict":
        kwargs["use_state_dict"] = True
    elif inplace is not None:
        kwargs["inplace"] = inplace
    x = torch.zeros(2)
    try:
        with time_limit(30.0):
            cm = params.to_module(net, **kwargs) if spelling == "pos" else params.to_module(module=net, **kwargs)
            with cm:
                # the module computes with the values of `params`
                keys = list(start.keys(True, True))
                inside = mod_read(net, keys)
                for k in keys:
                    if not torch.equal(inside[k], start[k]):
                        return "not-swapped", f"inside the block the module does not hold the values of the tensordict at {k}"
                if edit == "inplace":
                    with torch.no_grad():
                        seen = set()
                        for k in keys:
                            p = mod_get(net, k)
                            if id(p) not in seen:       # a tied entry is edited once per object
                                seen.add(id(p))
                                p.add_(1)
                elif edit == "forward":
                    net(x)          # Counter re-assigns its buffer; plain modules: nothing changes
                end = mod_read(net, keys)      # what the module holds at the end of the block
                end_objs = {".".join(k) if isinstance(k, tuple) else k: mod_get(net, k) for k in keys}
    except Exception as e:  # noqa: BLE001
        if isinstance(e, TimeoutError):
            from common import Infra
            raise Infra("a to_module block did not finish within 30 s on this box")
        return f"raises:{err_class(e)}", f"the block raised {type(e).__name__}: {str(e)[:120]}"
    # 1. the module got its own objects and values back
    now = dict(list(net.named_parameters()) + list(net.named_buffers()))
    for k, v in objects.items():
        if inplace is True and end_objs.get(k) is not v:
            continue        # inplace=True writes INTO whatever the module holds: an attribute re-assigned inside the block stays re-assigned (values judged below)
        if now.get(k) is not v:
            return "module-object", f"after the block the module does not hold its own object at {k}"
    after = TensorDict.from_module(net).data
    for k in before.keys(True, True):
        if not torch.equal(after[k], before[k]):
            return "module-value", f"the module did not get its value back at {k}"
    # 2. the tensordict holds what the module held at the end of the block, entry by entry (also under the second name of a tied sub-module)
    for k in keys:
        if k not in params.keys(True, True):
            return "td-key", f"{k} is missing in the tensordict after the block"
        if not torch.equal(params[k], end[k]):
            return "td-value", f"the tensordict does not hold what the module held at the end of the block at {k}"
    if bool(params.is_locked) != locked:
        return "td-lock", f"lock state of the tensordict changed: {params.is_locked}"
    # 3. no aliasing between the tensordict and the module after the block
    snap = params.clone()
    with torch.no_grad():
        for p in list(net.parameters()) + list(net.buffers()):
            p.mul_(3).add_(7)
    for k in snap.keys(True, True):
        if not torch.equal(params[k], snap[k]):
            return "aliasing", f"after the block the tensordict still aliases the module's storage at {k}"
    return None
