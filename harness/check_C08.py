"""C08 — a lazy stack equals the dense stack and is a write-through view of its members."""
from __future__ import annotations

import torch

from common import REPO, Infra, Raw, Run, err_class, main_guard, parse_sx, sx, time_limit

import c08_ast as A
import c08_gen as G
import c08_hist as H
import c08_ops as O


def shapes_for(rng, tier):
    rank = rng.choice([0, 1, 1, 2, 2, 2])
    return tuple(rng.choice([1, 2, 2, 3, 3]) for _ in range(rank))


def exhaustive_read_cases():
    """every index tuple of length <= 3 over a 12-item alphabet, on every stack of 1..2 members of batch
    rank 0..2 (dims 1..2) and every stack dim (thorough tier)"""
    import itertools
    out = []
    shapes = [s for r in range(0, 3) for s in itertools.product([1, 2], repeat=r)]
    for bs in shapes:
        for n in (1, 2):
            for sd in range(len(bs) + 1):
                full = list(bs)
                full.insert(sd, n)
                alpha = [("int", 0), ("int", -1), ("slice", None, None, None), ("slice", 1, None, None), ("slice", None, None, 2),
                         ("none",), ("ell",), ("tens", "list", (2,), [0, -1]), ("tens", "tensor", (1, 2), [-1, 0])]
                # masks fitting the leading dim(s) at each position are added per position below
                for L in range(0, 4):
                    for tup in itertools.product(range(len(alpha) + 2), repeat=L):
                        ix, cursor, ok, nadv = [], 0, True, 0
                        for t in tup:
                            if t < len(alpha):
                                it = alpha[t]
                            else:
                                k = t - len(alpha) + 1          # mask rank 1 or 2 at the current cursor
                                if cursor + k > len(full):
                                    ok = False
                                    break
                                shp = tuple(full[cursor:cursor + k])
                                vals = [(i % 3) != 1 for i in range(G.numel(shp))]
                                it = ("mask", shp, vals)
                            if it[0] in ("tens", "mask"):
                                nadv += 1
                            if it[0] == "mask":
                                cursor += len(it[1])
                            elif it[0] not in ("none", "ell"):
                                cursor += 1
                            ix.append(it)
                        # indices longer than the batch rank run into the feature dims (C03's subject): not enumerated
                        if ok and cursor <= len(full) and nadv <= 1 and sum(1 for i in ix if i[0] == "ell") <= 1:
                            out.append((bs, n, sd, G.FEATS_PLAIN, ix, False))
    return out


def read_stream(run, drv, n_cases, malformed=False, cases=None):
    """correspondence (model vs implementation) + dense-stack oracle for reads"""
    rng = run.rng
    reqs, metas = [], []
    for _ in range(n_cases if cases is None else 0):
        bs = shapes_for(rng, run.tier)
        n = rng.randint(1, 4)
        sd = rng.randint(0, len(bs))
        feats = rng.choice([G.FEATS_PLAIN, G.FEATS_PLAIN, G.FEATS_NESTED])
        full = list(bs)
        full.insert(sd, n)
        ix = G.gen_index_spec(rng, full, malformed=malformed)
        neg = rng.random() < 0.3
        metas.append((bs, n, sd, feats, ix, neg))
    if cases is not None:
        metas = list(cases)
    for (bs, n, sd, feats, ix, neg) in metas:
        fs = Raw("(feats" + "".join(" (" + " ".join([k] + [str(x) for x in f]) + ")" for k, f in feats) + ")")
        reqs.append(sx("c08.get", ["bs"] + list(bs), n, sd, fs, G.ixs_sx(ix)))
        reqs.append(sx("c08.split", ["bs"] + list(bs), n, sd, G.ixs_sx(ix)))
    answers = G.ask_all(drv, reqs)
    stream = "getitem_malformed" if malformed else ("getitem_exhaustive" if cases is not None else "getitem")
    for j, (bs, n, sd, feats, ix, neg) in enumerate(metas):
        m_get = parse_sx(answers[2 * j])
        m_split = parse_sx(answers[2 * j + 1])
        case = {"bs": list(bs), "n": n, "sd": sd, "feats": [k for k, _ in feats], "ix": ix, "neg_sd": neg}
        pos = G.adv_position(ix, sd)
        run.case(("get", bs, n, sd, str(ix)), nontrivial=len(ix) > 0)
        run.count("read.adv_position", pos)
        run.count("read.kinds", G.ix_kinds(ix))
        run.count("read.rank_sd", f"rank{len(bs)}/sd{sd}/n{n}")
        with time_limit(180):
            L, ms = G.mk_lazy(bs, n, sd - (len(bs) + 1) if neg else sd, feats, via="ctor" if j % 2 else "lazy_stack")
            impl, r = G.impl_get(L, ix, feats)
            # _split_index counters
            try:
                d = L._split_index(G.index_py(ix))
                i_split = G.split_canon(d)
            except TimeoutError:      # a slow box is an infrastructure problem (exit 2), never a verdict
                raise
            except Exception:  # noqa: BLE001
                i_split = ["err"]
        run.count("read.outcome", impl[0] + ("/" + impl[1][1] if impl[0] == "ok" else ""))
        has_bool = m_split[0] == "ok" and m_split[5][1] == "true"
        mask_rank = max([len(it[1]) for it in ix if it[0] == "mask"] or [0])
        modelled = not (has_bool and mask_rank >= 3)  # rank>=3 mask on / spanning the stack dim: outside the model
        # (Ellipsis next to a rank>=2 mask is inside the model again: convert_ellipsis_to_idx now counts the dims of a mask)
        if modelled:
            run.corr(stream, case, impl, m_get)
            if has_bool:
                run.count("read.has_bool_modelled", impl[0] + ("/" + impl[1][1] if impl[0] == "ok" else ""))
        else:
            run.count("read.outside_model", "has_bool_rank>=3")
        run.corr("split_index", case, i_split, m_split)
        # ---- oracle: dense stack of clones
        if impl[0] == "ok" and impl[1][1] != "empty":
            with time_limit(180):
                dense = G.dense_of(ms, sd)
                index = G.index_py(ix)
                try:
                    dr = dense[index]
                except TimeoutError:      # a slow box is an infrastructure problem (exit 2), never a verdict
                    raise
                except Exception:  # noqa: BLE001
                    dr = None
            if dr is None:
                run.count("read.asymmetry", "lazy_returns_dense_raises")
                run.oracle_ok("read_dense_raises")
            else:
                diff = G.same_td(r, dr)
                if diff is None:
                    run.oracle_ok("read")
                else:
                    # is the dense stack itself torch-conforming here (C03's subject)?
                    try:
                        tl = G.torch_leaf_index(dense, index, feats)
                        dense_ok = all(torch.equal(tl[k], G.get_leaf(dr, k)) for k, _ in feats)
                    except TimeoutError:      # a slow box is an infrastructure problem (exit 2), never a verdict
                        raise
                    except Exception:  # noqa: BLE001
                        dense_ok = False
                    if dense_ok:
                        run.oracle_fail("read", case, f"lazy[index] differs from dense[index]: {diff}", f"read:{pos}:{G.ix_kinds(ix)}")
                    else:
                        run.count("read.asymmetry", "dense_not_torch(C03)")
        elif impl[0] == "unreadable" or (impl[0] == "ok" and impl[1][1] == "empty"):
            # e.g. an empty lazy stack (all-False mask): its entries cannot be read, its batch size can
            try:
                db = tuple(G.dense_of(ms, sd)[G.index_py(ix)].batch_size)
            except TimeoutError:      # a slow box is an infrastructure problem (exit 2), never a verdict
                raise
            except Exception:  # noqa: BLE001
                db = None
            if db is not None and tuple(r.batch_size) != db:
                run.oracle_fail("read_empty", case, f"batch_size {tuple(r.batch_size)} vs dense {db}", f"read_empty:{pos}:{G.ix_kinds(ix)}")
            else:
                run.oracle_ok("read_empty")
        else:
            run.oracle_ok("read_raises")
        if j < 3:
            run.sample({"stream": stream, "case": case, "model": answers[2 * j][:300]})


MASK2_WRITE_HOWS = ("setitem", "set_at_", "update_at_")


def write_stream(run, drv, n_cases):
    """correspondence for `lazy[index] = value` (members after the write) + dense oracle"""
    rng = run.rng
    reqs, metas = [], []
    while len(metas) < n_cases:
        bs = shapes_for(rng, run.tier)
        n = rng.randint(1, 4)
        sd = rng.randint(0, len(bs))
        feats = rng.choice([G.FEATS_PLAIN, G.FEATS_PLAIN, G.FEATS_NESTED])
        if rng.random() < 0.3:
            # a feature dim as long as the member list: a value unbound along the wrong dim still "fits"
            feats = [("a", (n,)), ("b", (2,))]
        full = list(bs)
        full.insert(sd, n)
        ix = G.gen_index_spec(rng, full, malformed=rng.random() < 0.08)
        if sd >= 1 and rng.random() < 0.12:
            ix = G.gen_index_mask_before(rng, bs, n, sd)      # num_squash != 0
        elif rng.random() < 0.12:
            ix = G.gen_index_mask2(rng, bs, n, sd) or ix      # rank-2 mask on / spanning the stack dim
        if G.has_dup_targets(ix):
            # duplicate targets: torch leaves the winner unspecified
            negs = True
        # normalised duplicates (e.g. -1 and n-1) are caught below through the dense oracle only
        # `lazy[index] = tensordict` (__setitem__) or the same write key by key with tensors
        # (`set_at_` -> _set_at_str / _set_at_tuple, the path `lazy[index] = tensor` takes too): the
        # two functions repeat the same branches, the model (lazySet) transcribes both
        u = rng.random()
        # ... or `lazy.update_at_(tensordict, index)`: its own function (`_split_index`, then the members' update_at_ on the
        # unbound pieces), its own transcription (`lazyUpdateAt`, driver command c08.update_at)
        how = "setitem" if u < 0.5 else ("set_at_" if u < 0.8 else "update_at_")
        if sum(1 for i in ix if i[0] == "ell") > 1:
            how = "setitem"      # malformed (two Ellipses): only the tensordict write sees the raw index
        metas.append((bs, n, sd, feats, ix, how))
        fs = Raw("(feats" + "".join(" (" + " ".join([k] + [str(x) for x in f]) + ")" for k, f in feats) + ")")
        reqs.append(sx("c08.update_at" if how == "update_at_" else "c08.set", ["bs"] + list(bs), n, sd, fs, G.ixs_sx(ix)))
        reqs.append(sx("c08.split", ["bs"] + list(bs), n, sd, G.ixs_sx(ix)))
    answers = G.ask_all(drv, reqs)
    for j, (bs, n, sd, feats, ix, how) in enumerate(metas):
        m_set = parse_sx(answers[2 * j])
        m_split = parse_sx(answers[2 * j + 1])
        case = {"bs": list(bs), "n": n, "sd": sd, "feats": [[k] + list(f) for k, f in feats], "ix": ix, "how": how}
        pos = G.adv_position(ix, sd)
        run.case(("set", bs, n, sd, str(ix)), nontrivial=len(ix) > 0)
        run.count("write.adv_position", pos)
        index = G.index_py(ix)
        with time_limit(180):
            L, ms = G.mk_lazy(bs, n, sd, feats)
            dense = G.dense_of(ms, sd)
            # the indexed batch size, from torch on a proxy of the batch shape
            try:
                idx2 = index
                ibs = tuple(torch.zeros(tuple(dense.batch_size))[idx2].shape) if dense.batch_size or ix else ()
            except TimeoutError:      # a slow box is an infrastructure problem (exit 2), never a verdict
                raise
            except Exception:  # noqa: BLE001
                ibs = None
            if ibs is None:
                impl = ["err"]
                dr = None
            else:
                value = G.mk_value(ibs, feats)
                # the dense `set_at_` indexes the LEAF with the raw index: an Ellipsis would also span the
                # feature dims (C03's business).  The key-by-key write gets the Ellipsis spelled out.
                index_at = G.index_py(G.expand_ell(ix, len(bs) + 1)) if any(i[0] == "ell" for i in ix) else index

                def write(x):
                    if how == "setitem":
                        x[index] = value.clone()
                    elif how == "update_at_":
                        # (the DENSE update_at_ indexes the leaves with the raw index: Ellipsis spelled out, as for set_at_)
                        x.update_at_(value.clone(), index_at if not isinstance(x, O.LazyStackedTensorDict) else index)
                    else:
                        for k, _ in feats:
                            kk = tuple(k.split(".")) if "." in k else k
                            x.set_at_(kk, value.get(kk).clone(), index_at)
                try:
                    write(L)
                    impl = G.members_canon(L, feats)
                except TimeoutError:      # a slow box is an infrastructure problem (exit 2), never a verdict
                    raise
                except Exception:  # noqa: BLE001
                    impl = ["err"]
                try:
                    write(dense)
                    dr = dense
                except TimeoutError:      # a slow box is an infrastructure problem (exit 2), never a verdict
                    raise
                except Exception:  # noqa: BLE001
                    dr = None
        run.count("write.outcome", how + ":" + impl[0])
        dup = False
        for it in ix:
            if it[0] == "tens":
                d0 = full[0] if False else None
        w_mask_rank = max([len(it[1]) for it in ix if it[0] == "mask"] or [0])
        # a rank-2 mask on / spanning the stack dim: Model/C08SetMask2.lean lazySetCoreM (`lazy[ix] = td`, key by key
        # `set_at_`, and the key-by-key fallback of `update_at_`)
        span2 = m_split[0] == "ok" and m_split[5][1] == "true" and w_mask_rank >= 2
        modelled = not span2 or (w_mask_rank == 2 and how in MASK2_WRITE_HOWS)
        if span2:
            run.count("write.mask2", how + ":" + impl[0] + "/" + m_set[0])
        # duplicate targets after normalisation: order-dependent, outside the model's claim
        for it in ix:
            if it[0] == "tens":
                vals = it[3]
                size = max(1, max(abs(v) + 1 for v in vals)) if vals else 1
        if modelled and not G.has_dup_targets(ix):
            run.corr("setitem", case, impl, m_set)
        else:
            run.count("write.outside_model", "has_bool_rank>=2" if not modelled else "duplicate_targets")
        if impl[0] == "ok" and dr is not None:
            diff = None
            try:
                S = torch.stack([m.clone() for m in ms], sd)
                diff = G.same_td(S, dr)
                if diff is None:
                    diff = G.same_td(torch.stack([m.clone() for m in L.tensordicts], sd), dr)
            except TimeoutError:      # a slow box is an infrastructure problem (exit 2), never a verdict
                raise
            except Exception as e:  # noqa: BLE001
                diff = f"members can no longer be stacked: {type(e).__name__}"
            if diff and not G.has_dup_targets(ix):
                run.oracle_fail("write", case, f"after the write ({how}) the members differ from the dense stack after the same write: {diff}", f"write:{how}:{pos}:{G.ix_kinds(ix)}")
            else:
                run.oracle_ok("write")
        else:
            run.oracle_ok("write_raises")
        if j < 2:
            run.sample({"stream": "setitem", "case": case, "model": answers[2 * j][:300]})


def shape_stream(run, drv, n_cases, exhaustive=False):
    """correspondence for the stack-dim bookkeeping of unsqueeze / squeeze / transpose / permute / unbind"""
    import itertools
    rng = run.rng
    cases = []
    if exhaustive:
        shapes = [s for r in range(0, 3) for s in itertools.product([1, 2, 3], repeat=r)]
        for bs in shapes:
            for n in (1, 2, 3):
                for sd in range(len(bs) + 1):
                    r = len(bs) + 1
                    for d in range(-r - 2, r + 2):
                        cases.append((bs, n, sd, ("unsqueeze", d)))
                        cases.append((bs, n, sd, ("squeeze", d)))
                        cases.append((bs, n, sd, ("unbind", d)))
                    for a in range(-r - 1, r + 1):
                        for b in range(-r - 1, r + 1):
                            cases.append((bs, n, sd, ("transpose", a, b)))
                    for p in itertools.permutations(range(r)):
                        cases.append((bs, n, sd, ("permute",) + p))
                        cases.append((bs, n, sd, ("permute",) + tuple(q - r for q in p)))
    else:
        for _ in range(n_cases):
            bs = shapes_for(rng, run.tier)
            n = rng.randint(1, 4)
            sd = rng.randint(0, len(bs))
            r = len(bs) + 1
            k = rng.choice(["unsqueeze", "squeeze", "unbind", "transpose", "permute"])
            if k in ("unsqueeze", "squeeze", "unbind"):
                op = (k, rng.randint(-r - 2, r + 1))
            elif k == "transpose":
                op = (k, rng.randint(-r - 1, r), rng.randint(-r - 1, r))
            else:
                p = list(range(r))
                rng.shuffle(p)
                if rng.random() < 0.3:
                    p = [q - r if rng.random() < 0.5 else q for q in p]
                op = (k,) + tuple(p)
            cases.append((bs, n, sd, op))
    # replay of the proved counter-witness `transpose_far_counterexample` (member batch rank 3 is
    # outside the property's quantifier: correspondence only, no oracle verdict)
    cases.append(((2, 3, 4), 1, 0, ("transpose", 0, 3)))
    cases.append(((2, 3, 4), 2, 2, ("transpose", 0, 2)))
    feats = G.FEATS_PLAIN
    fs = Raw("(feats" + "".join(" (" + " ".join([k] + [str(x) for x in f]) + ")" for k, f in feats) + ")")
    reqs = [sx("c08.shape", ["bs"] + list(bs), n, sd, fs, list(op)) for bs, n, sd, op in cases]
    answers = G.ask_all(drv, reqs)
    for (bs, n, sd, op), a in zip(cases, answers):
        model = parse_sx(a)
        case = {"bs": list(bs), "n": n, "sd": sd, "op": list(op)}
        run.case(("shape", bs, n, sd, op))
        run.count("shape.op", op[0])
        with time_limit(180):
            L, ms = G.mk_lazy(bs, n, sd, feats)
            dense = G.dense_of(ms, sd)

            def one(r):
                return ["ok", G.impl_kind(r)] + G.td_canon(r, feats)
            try:
                if op[0] == "unsqueeze":
                    r = L.unsqueeze(op[1]); impl = one(r)
                elif op[0] == "squeeze":
                    r = L.squeeze(op[1]); impl = one(r)
                elif op[0] == "transpose":
                    r = L.transpose(op[1], op[2]); impl = one(r)
                elif op[0] == "permute":
                    r = L.permute(*op[1:]); impl = one(r)
                else:
                    r = L.unbind(op[1]); impl = ["seq"] + [one(x) for x in r]
            except TimeoutError:      # a slow box is an infrastructure problem (exit 2), never a verdict
                raise
            except Exception:  # noqa: BLE001
                r, impl = None, ["err"]
            try:
                if op[0] == "unsqueeze":
                    dr = dense.unsqueeze(op[1])
                elif op[0] == "squeeze":
                    dr = dense.squeeze(op[1])
                elif op[0] == "transpose":
                    dr = dense.transpose(op[1], op[2])
                elif op[0] == "permute":
                    dr = dense.permute(*op[1:])
                else:
                    dr = dense.unbind(op[1])
            except TimeoutError:      # a slow box is an infrastructure problem (exit 2), never a verdict
                raise
            except Exception:  # noqa: BLE001
                dr = None
        run.count("shape.outcome", op[0] + ":" + impl[0])
        run.corr("shape_ops", case, impl, model)
        if len(bs) > 2:
            run.count("shape.outside_quantifier", op[0])
            continue
        if r is not None and dr is not None:
            if op[0] == "unbind":
                diff = None if len(r) == len(dr) else "length"
                for x, y in zip(r, dr):
                    diff = diff or G.same_td(x, y)
            else:
                diff = G.same_td(r, dr)
            if diff:
                run.oracle_fail("shape_op", case, f"lazy.{op[0]}{op[1:]} differs from dense: {diff}", f"shape:{op[0]}")
            else:
                run.oracle_ok("shape_op")
        else:
            run.oracle_ok("shape_op_raises")


def cat_stream(run, drv, n_cases):
    """correspondence for torch.cat of lazy stacks (no out=): result kind, stack dim, member count, values"""
    rng = run.rng
    feats = G.FEATS_PLAIN
    fs = Raw("(feats" + "".join(" (" + " ".join([k] + [str(x) for x in f]) + ")" for k, f in feats) + ")")
    reqs, metas = [], []
    for _ in range(n_cases):
        rank = rng.choice([0, 1, 1, 2, 2])
        bs = tuple(rng.choice([1, 2, 3]) for _ in range(rank))
        sd = rng.randint(0, rank)
        r = rank + 1
        dim = rng.randrange(-r - 1, r + 1)
        dimn = dim % r if -r <= dim < r else None
        nops = rng.randint(1, 3)
        n0 = rng.randint(1, 3)
        ops = []
        for j in range(nops):
            bsj, nj = list(bs), n0
            q = rng.random()
            if dimn is not None and dimn == sd:
                nj = rng.randint(1, 3)
            elif dimn is not None and q < 0.8:
                md = dimn if dimn < sd else dimn - 1
                bsj[md] = rng.choice([1, 2, 3])
            if rng.random() < 0.05:
                nj = rng.randint(1, 3)          # malformed: member counts differ off the stack dim
            ops.append((tuple(bsj), nj))
        metas.append((sd, dim, ops))
        reqs.append(sx("c08.cat", sd, dim, fs, *[Raw(sx("op", ["bs"] + list(b), n)) for b, n in ops]))
    answers = G.ask_all(drv, reqs)
    for (sd, dim, ops), a in zip(metas, answers):
        model = parse_sx(a)
        case = {"sd": sd, "dim": dim, "ops": [[list(b), n] for b, n in ops]}
        run.case(("cat", sd, dim, str(ops)))
        run.count("cat.position", "on_sd" if (dim % (len(ops[0][0]) + 1)) == sd else "off_sd")
        with time_limit(180):
            Ls, Ds = [], []
            for j, (b, n) in enumerate(ops):
                L, ms = G.mk_lazy(b, n, sd, feats)
                for m in ms:
                    for k, _ in feats:
                        G.get_leaf(m, k).add_(j * 1000000)
                Ls.append(L)
                Ds.append(G.dense_of(ms, sd))
            try:
                r = torch.cat(Ls, dim)
                impl = ["ok", G.impl_kind(r)] + G.td_canon(r, feats)
            except TimeoutError:      # a slow box is an infrastructure problem (exit 2), never a verdict
                raise
            except Exception:  # noqa: BLE001
                r, impl = None, ["err"]
            try:
                dr = torch.cat(Ds, dim)
            except TimeoutError:      # a slow box is an infrastructure problem (exit 2), never a verdict
                raise
            except Exception:  # noqa: BLE001
                dr = None
        run.count("cat.outcome", impl[0])
        r_full = len(ops[0][0]) + 1
        if not (-r_full <= dim < r_full):
            # a dim outside [-ndim, ndim) is not a supported argument: both the dense _cat and _lazy_cat let some of
            # them through (dim normalisation is C02's subject); no verdict here
            run.count("cat.invalid_dim", impl[0] + "/" + ("dense-ok" if dr is not None else "dense-raises"))
            continue
        run.corr("cat", case, impl, model)
        if r is not None and dr is not None:
            diff = G.same_td(r, dr)
            if diff:
                run.oracle_fail("cat", case, f"torch.cat(lazy stacks, {dim}) differs from the dense cat: {diff}", "cat:no-out")
            else:
                run.oracle_ok("cat")
        else:
            run.oracle_ok("cat_raises")


def misc_stream(run, drv, n_cases):
    """correspondence for torch.stack of lazy stacks (same stack dim), insert / append and update_"""
    rng = run.rng
    feats = G.FEATS_PLAIN
    fs = Raw("(feats" + "".join(" (" + " ".join([k] + [str(x) for x in f]) + ")" for k, f in feats) + ")")
    reqs, metas = [], []
    for _ in range(n_cases):
        rank = rng.choice([0, 1, 1, 2, 2])
        bs = tuple(rng.choice([1, 2, 3]) for _ in range(rank))
        sd = rng.randint(0, rank)
        n = rng.randint(1, 3)
        kind = rng.choice(["stack", "stack", "insert", "append", "update_"])
        if kind == "stack":
            r = rank + 1
            dim = rng.randrange(-r - 1, r + 1)
            nops = rng.randint(1, 3)
            ops = [(bs if rng.random() < 0.95 else bs + (1,), n if rng.random() < 0.95 else n + 1) for _ in range(nops)]
            metas.append((kind, bs, n, sd, (dim, ops)))
            reqs.append(sx("c08.stack", sd, dim, fs, *[Raw(sx("op", ["bs"] + list(b), k)) for b, k in ops]))
        elif kind in ("insert", "append"):
            index = rng.randint(-n - 2, n + 2) if kind == "insert" else n
            metas.append((kind, bs, n, sd, index))
            reqs.append(sx("c08.insert", ["bs"] + list(bs), n, sd, fs, index))
        else:
            keys = rng.choice([["a"], ["b"], ["a", "b"]])
            metas.append((kind, bs, n, sd, keys))
            reqs.append(sx("c08.update_", ["bs"] + list(bs), n, sd, fs, ["keys"] + keys))
    answers = G.ask_all(drv, reqs)
    for (kind, bs, n, sd, arg), a in zip(metas, answers):
        model = parse_sx(a)
        case = {"kind": kind, "bs": list(bs), "n": n, "sd": sd, "arg": arg}
        run.case(("misc", kind, bs, n, sd, str(arg)))
        run.count("misc.kind", kind)
        with time_limit(180):
            if kind == "stack":
                dim, ops = arg
                Ls, Ds = [], []
                for j, (b, k) in enumerate(ops):
                    try:
                        L, ms = G.mk_lazy(b, k, sd, feats)
                    except TimeoutError:      # a slow box is an infrastructure problem (exit 2), never a verdict
                        raise
                    except Exception:  # noqa: BLE001
                        L = None
                        break
                    for m in ms:
                        for kk, _ in feats:
                            G.get_leaf(m, kk).add_(j * 1000000)
                    Ls.append(L)
                    Ds.append(G.dense_of(ms, sd))
                r_full = len(bs) + 1
                try:
                    r = torch.stack(Ls, dim)
                    impl = ["ok", G.impl_kind(r)] + G.td_canon(r, feats)
                except TimeoutError:      # a slow box is an infrastructure problem (exit 2), never a verdict
                    raise
                except Exception:  # noqa: BLE001
                    r, impl = None, ["err"]
                try:
                    dr = torch.stack(Ds, dim)
                except TimeoutError:      # a slow box is an infrastructure problem (exit 2), never a verdict
                    raise
                except Exception:  # noqa: BLE001
                    dr = None
                if not (-r_full - 1 <= dim <= r_full):
                    run.count("misc.invalid_dim", impl[0])
                    continue
            elif kind in ("insert", "append"):
                L, ms = G.mk_lazy(bs, n, sd, feats)
                new = G.mk_member(bs, feats, 0)
                for kk, _ in feats:
                    G.get_leaf(new, kk).add_(7 * 1000000)
                order = list(ms)
                try:
                    if kind == "append":
                        L.append(new)
                        order.append(new)
                    else:
                        L.insert(arg, new)
                        order.insert(arg, new)
                    impl = ["ok", G.impl_kind(L)] + G.td_canon(L, feats)
                    r = L
                except TimeoutError:      # a slow box is an infrastructure problem (exit 2), never a verdict
                    raise
                except Exception:  # noqa: BLE001
                    r, impl = None, ["err"]
                dr = G.dense_of(order, sd) if r is not None else None
            else:
                L, ms = G.mk_lazy(bs, n, sd, feats)
                dense = G.dense_of(ms, sd)
                v = G.mk_value(tuple(dense.batch_size), feats).select(*arg)
                try:
                    L.update_(v.clone())
                    impl = G.members_canon(L, feats)
                    r = torch.stack([m.clone() for m in ms], sd)
                except TimeoutError:      # a slow box is an infrastructure problem (exit 2), never a verdict
                    raise
                except Exception:  # noqa: BLE001
                    r, impl = None, ["err"]
                try:
                    dense.update_(v.clone())
                    dr = dense
                except TimeoutError:      # a slow box is an infrastructure problem (exit 2), never a verdict
                    raise
                except Exception:  # noqa: BLE001
                    dr = None
        run.count("misc.outcome", kind + ":" + impl[0])
        run.corr("misc_" + ("stack" if kind == "stack" else "insert" if kind in ("insert", "append") else "update_"), case, impl, model)
        if r is not None and dr is not None:
            diff = G.same_td(r, dr)
            if diff:
                run.oracle_fail("misc:" + kind, case, f"{kind} differs from the dense stack: {diff}", "misc:" + kind)
            else:
                run.oracle_ok("misc:" + kind)
        else:
            run.oracle_ok("misc_raises:" + kind)


def two_level_stream(run, drv, n_cases):
    """correspondence + oracle for reads on a lazy stack of lazy stacks (Model/C08Lazy2.lean)"""
    from tensordict import LazyStackedTensorDict
    rng = run.rng
    feats = G.FEATS_PLAIN
    fs = Raw("(feats" + "".join(" (" + " ".join([k] + [str(x) for x in f]) + ")" for k, f in feats) + ")")
    reqs, metas = [], []
    for _ in range(n_cases):
        rank = rng.choice([0, 1, 1, 2])
        bs = tuple(rng.choice([1, 2, 3]) for _ in range(rank))
        nin, nout = rng.randint(1, 3), rng.randint(1, 3)
        sdin = rng.randint(0, rank)
        sdout = rng.randint(0, rank + 1)
        full = list(bs)
        full.insert(sdin, nin)
        full.insert(sdout, nout)
        ix = G.gen_index_spec(rng, full)
        metas.append((bs, nin, nout, sdin, sdout, ix))
        reqs.append(sx("c08.get2", ["bs"] + list(bs), nin, nout, sdin, sdout, fs, G.ixs_sx(ix)))
    answers = G.ask_all(drv, reqs)
    for (bs, nin, nout, sdin, sdout, ix), a in zip(metas, answers):
        model = parse_sx(a)
        case = {"bs": list(bs), "n_in": nin, "n_out": nout, "sd_in": sdin, "sd_out": sdout, "ix": ix}
        run.case(("get2", bs, nin, nout, sdin, sdout, str(ix)))
        with time_limit(180):
            inners, denses = [], []
            for j in range(nout):
                L, ms = G.mk_lazy(bs, nin, sdin, feats)
                for m in ms:
                    for kk, _ in feats:
                        G.get_leaf(m, kk).add_(j * 1000000)
                inners.append(L)
                denses.append(G.dense_of(ms, sdin))
            LL = LazyStackedTensorDict(*inners, stack_dim=sdout)
            DD = torch.stack(denses, sdout)
            index = G.index_py(ix)
            try:
                r = LL[index]
                if isinstance(r, LazyStackedTensorDict) and O.is_empty_lazy(r):
                    impl = ["ok", ["kind", "empty"], ["bs"] + list(r.batch_size)]
                else:
                    impl = ["ok", "K"] + G.td_canon(r, feats)
            except TimeoutError:      # a slow box is an infrastructure problem (exit 2), never a verdict
                raise
            except Exception:  # noqa: BLE001
                r, impl = None, ["err"]
            try:
                dr = DD[index]
            except TimeoutError:      # a slow box is an infrastructure problem (exit 2), never a verdict
                raise
            except Exception:  # noqa: BLE001
                dr = None
        # which outer branch? (model says); the model covers: no integer tensor on the outer stack dim, masks of rank 1 on it
        on_outer = G.adv_position([i for i in ix], sdout)
        adv = [it for it in ix if it[0] in ("tens", "mask")]
        outer_cursor_adv = None
        modelled = True
        if adv:
            it = adv[0]
            pos = G.adv_position(G.expand_ell(ix, len(bs) + 2), sdout)
            if it[0] == "tens" and pos == "on" and len(it[2]) >= 2:
                modelled = False      # (rank-1 integer tensors on the outer stack dim: Model/C08Lazy2T.lean)
            if it[0] == "mask" and len(it[1]) >= 2 and pos in ("on", "spanning"):
                modelled = False
            # a mask / tensor addressed to the INNER stack dim goes through lazyGetCoreM of the inner stacks: modelled
        run.count("two_level.outcome", impl[0] + ("" if modelled else "/outside_model"))
        if modelled:
            m2 = model
            if m2[0] == "ok" and m2[1][1] != "empty":
                if len(m2) > 3 and m2[3] == ["leaves"]:
                    m2 = ["ok", ["kind", "empty"], m2[2]]      # a stack of empty inner results: only a batch size
                else:
                    m2 = ["ok", "K"] + m2[2:]
            run.corr("getitem_two_level", case, impl, m2)
        if r is not None and dr is not None and not (isinstance(r, LazyStackedTensorDict) and O.is_empty_lazy(r)):
            diff = G.same_td(r, dr)
            if diff:
                run.oracle_fail("two_level", case, f"stack-of-stacks read differs from dense: {diff}", "two_level:read")
            else:
                run.oracle_ok("two_level")
        else:
            run.oracle_ok("two_level_raises")


def write2_stream(run, drv, n_cases):
    """correspondence + oracle for `lazy_of_lazy[index] = value` (Model/C08Lazy2.lean lazySet2): the
    stack of stacks, re-read from the LEAF members, after the write"""
    from tensordict import LazyStackedTensorDict
    rng = run.rng
    feats = G.FEATS_PLAIN
    fs = Raw("(feats" + "".join(" (" + " ".join([k] + [str(x) for x in f]) + ")" for k, f in feats) + ")")
    reqs, metas = [], []
    while len(metas) < n_cases:
        rank = rng.choice([0, 1, 1, 2])
        bs = tuple(rng.choice([1, 2, 3]) for _ in range(rank))
        nin, nout = rng.randint(1, 3), rng.randint(1, 3)
        sdin = rng.randint(0, rank)
        sdout = rng.randint(0, rank + 1)
        full = list(bs)
        full.insert(sdin, nin)
        full.insert(sdout, nout)
        ix = G.gen_index_spec(rng, full)
        if G.has_dup_targets(ix) or not O.no_dup_writes(ix):
            continue
        metas.append((bs, nin, nout, sdin, sdout, ix))
        reqs.append(sx("c08.set2", ["bs"] + list(bs), nin, nout, sdin, sdout, fs, G.ixs_sx(ix)))
    answers = G.ask_all(drv, reqs)
    for (bs, nin, nout, sdin, sdout, ix), a in zip(metas, answers):
        model = parse_sx(a)
        case = {"bs": list(bs), "n_in": nin, "n_out": nout, "sd_in": sdin, "sd_out": sdout, "ix": ix}
        run.case(("set2", bs, nin, nout, sdin, sdout, str(ix)))
        with time_limit(180):
            inners, denses, leaves = [], [], []
            for j in range(nout):
                L, ms = G.mk_lazy(bs, nin, sdin, feats)
                for m in ms:
                    for kk, _ in feats:
                        G.get_leaf(m, kk).add_(j * 1000000)
                inners.append(L)
                leaves.append(ms)
                denses.append(G.dense_of(ms, sdin))
            LL = LazyStackedTensorDict(*inners, stack_dim=sdout)
            DD = torch.stack(denses, sdout)
            index = G.index_py(ix)
            try:
                ibs = tuple(torch.zeros(tuple(DD.batch_size))[index].shape) if DD.batch_size or ix else ()
            except TimeoutError:
                raise
            except Exception:  # noqa: BLE001
                ibs = None
            impl, dr = ["err"], None
            if ibs is not None:
                value = G.mk_value(ibs, feats)
                try:
                    LL[index] = value.clone()
                    after = torch.stack([G.dense_of(ms, sdin) for ms in leaves], sdout)
                    impl = ["ok", ["sds", LL.stack_dim] + [t.stack_dim for t in LL.tensordicts]] + G.td_canon(after, feats)
                except TimeoutError:
                    raise
                except Exception:  # noqa: BLE001
                    impl = ["err"]
                try:
                    DD[index] = value.clone()
                    dr = DD
                except TimeoutError:
                    raise
                except Exception:  # noqa: BLE001
                    dr = None
        # the model covers: no integer tensor of rank >= 2 on the outer stack dim, no mask of rank >= 2 on / spanning it
        adv = [it for it in ix if it[0] in ("tens", "mask")]
        modelled = True
        if adv:
            it = adv[0]
            pos = G.adv_position(G.expand_ell(ix, len(bs) + 2), sdout)
            if it[0] == "tens" and pos == "on" and len(it[2]) >= 2:
                modelled = False
            if it[0] == "mask" and len(it[1]) >= 2 and pos in ("on", "spanning"):
                modelled = False
            # ... nor a mask of rank >= 2 on / spanning the INNER stack dim (outside the one-level write model)
            pos_in = G.adv_position(G.expand_ell(ix, len(bs) + 2), sdin + (1 if sdout <= sdin else 0))
            if it[0] == "mask" and len(it[1]) >= 2 and pos_in in ("on", "spanning"):
                modelled = False
        run.count("write2.outcome", impl[0] + ("" if modelled else "/outside_model"))
        if modelled:
            run.corr("setitem_two_level", case, impl, model)
        if impl[0] == "ok" and dr is not None:
            diff = G.same_td(after, dr)
            if diff:
                run.oracle_fail("write2", case, f"after lazy_of_lazy[index] = value the leaf members differ from the dense stack after the same write: {diff}", "write2")
            else:
                run.oracle_ok("write2")
        else:
            run.oracle_ok("write2_raises")


def shape2_stream(run, drv, n_cases):
    """correspondence + oracle for unsqueeze / squeeze / permute / transpose on a lazy stack of lazy stacks:
    both stack dims of the result, the batch size and every value"""
    from tensordict import LazyStackedTensorDict
    rng = run.rng
    feats = G.FEATS_PLAIN
    fs = Raw("(feats" + "".join(" (" + " ".join([k] + [str(x) for x in f]) + ")" for k, f in feats) + ")")
    reqs, metas = [], []
    for _ in range(n_cases):
        rank = rng.choice([0, 1, 1, 2])
        bs = tuple(rng.choice([1, 2, 3]) for _ in range(rank))
        nin, nout = rng.randint(1, 3), rng.randint(1, 3)
        sdin = rng.randint(0, rank)
        sdout = rng.randint(0, rank + 1)
        r = rank + 2
        kind = rng.choice(["unsqueeze", "permute", "permute", "transpose", "transpose", "squeeze", "squeeze"])
        if kind == "squeeze":
            # prefer the singleton dims (the outer / the inner stack dim when it has one member, a member dim of size 1)
            inner_shape = list(bs)
            inner_shape.insert(sdin, nin)
            full = list(inner_shape)
            full.insert(sdout, nout)
            ones = [i for i, x in enumerate(full) if x == 1]
            d = rng.choice(ones) if ones and rng.random() < 0.7 else rng.randrange(-r, r)
            if rng.random() < 0.3:
                d = d - r if d >= 0 else d
            if rng.random() < 0.05:
                d = rng.choice([r, -r - 1])
            op = ["squeeze", d]
        elif kind == "unsqueeze":
            op = ["unsqueeze", rng.randrange(-r - 1, r + 1) if rng.random() < 0.93 else rng.choice([r + 1, -r - 2])]
        elif kind == "permute":
            p = list(range(r))
            rng.shuffle(p)
            if rng.random() < 0.4:
                p = [q - r if rng.random() < 0.5 else q for q in p]
            op = ["permute"] + p          # permutations only (a repeated dim is outside the model)
        else:
            op = ["transpose", rng.randrange(-r, r), rng.randrange(-r, r)]
        metas.append((bs, nin, nout, sdin, sdout, op))
        reqs.append(sx("c08.shape2", ["bs"] + list(bs), nin, nout, sdin, sdout, fs, op))
    answers = G.ask_all(drv, reqs)
    for (bs, nin, nout, sdin, sdout, op), a in zip(metas, answers):
        model = parse_sx(a)
        case = {"bs": list(bs), "n_in": nin, "n_out": nout, "sd_in": sdin, "sd_out": sdout, "op": op}
        run.case(("shape2", bs, nin, nout, sdin, sdout, str(op)))
        with time_limit(180):
            inners, denses = [], []
            for j in range(nout):
                L, ms = G.mk_lazy(bs, nin, sdin, feats)
                for m in ms:
                    for kk, _ in feats:
                        G.get_leaf(m, kk).add_(j * 1000000)
                inners.append(L)
                denses.append(G.dense_of(ms, sdin))
            LL = LazyStackedTensorDict(*inners, stack_dim=sdout)
            DD = torch.stack(denses, sdout)

            def f(x):
                if op[0] == "unsqueeze":
                    return x.unsqueeze(op[1])
                if op[0] == "squeeze":
                    return x.squeeze(op[1])
                if op[0] == "permute":
                    return x.permute(*op[1:])
                return x.transpose(op[1], op[2])
            try:
                r = f(LL)
                if isinstance(r, LazyStackedTensorDict) and all(isinstance(t, LazyStackedTensorDict) for t in r.tensordicts):
                    kindv = ["kind", "lazy2", r.stack_dim, len(r.tensordicts), ["inner_sd"] + [t.stack_dim for t in r.tensordicts]]
                elif isinstance(r, LazyStackedTensorDict):
                    kindv = ["kind", "lazy1", r.stack_dim, len(r.tensordicts)]
                else:
                    kindv = ["kind", "member"]
                impl = ["ok", kindv] + G.td_canon(r, feats)
            except TimeoutError:      # a slow box is an infrastructure problem (exit 2), never a verdict
                raise
            except Exception:  # noqa: BLE001
                r, impl = None, ["err"]
            try:
                dr = f(DD)
            except TimeoutError:      # a slow box is an infrastructure problem (exit 2), never a verdict
                raise
            except Exception:  # noqa: BLE001
                dr = None
        run.count("shape2.outcome", op[0] + ":" + impl[0])
        run.corr("shape_ops_two_level", case, impl, model)
        if r is not None and dr is not None:
            diff = G.same_td(r, dr)
            if diff:
                run.oracle_fail("shape2", case, f"stack-of-stacks {op[0]}{tuple(op[1:])} differs from dense: {diff}", f"shape2:{op[0]}")
            else:
                run.oracle_ok("shape2")
        else:
            run.oracle_ok("shape2_raises")


def apply_stream(run, drv, n_cases):
    """correspondence for pointwise operations (`_apply_nest`): `lazy.apply(fn)`, `lazy.apply(fn, other)`
    and the operator spellings, `other` a dense tensordict or a lazy stack along the same dim"""
    rng = run.rng
    reqs, metas = [], []
    for _ in range(n_cases):
        bs = shapes_for(rng, run.tier)
        n = rng.randint(1, 4)
        sd = rng.randint(0, len(bs))
        feats = rng.choice([G.FEATS_PLAIN, G.FEATS_NESTED])
        op = rng.choice(["mul3add1", "neg", "twice_plus", "sub", "where_lt",
                         "lt_other", "ge_other_shift", "gt_scalar", "all_any_gt", "all_any_ge0"])
        spelling = rng.choice(["apply", "operator"])
        other_kind = rng.choice(["dense", "lazy"])
        # (`lazy - dense_td` raised KeyError before main's "lazy-stack member-wise dispatch of pointwise ops": both operand kinds now)
        fs = Raw("(feats" + "".join(" (" + " ".join([k] + [str(x) for x in f]) + ")" for k, f in feats) + ")")
        metas.append((bs, n, sd, feats, op, spelling, other_kind))
        reqs.append(sx("c08.apply", ["bs"] + list(bs), n, sd, fs, Raw(op)))
    answers = G.ask_all(drv, reqs)
    for (bs, n, sd, feats, op, spelling, other_kind), a in zip(metas, answers):
        model = parse_sx(a)
        case = {"bs": list(bs), "n": n, "sd": sd, "feats": [k for k, _ in feats], "op": op, "spelling": spelling, "other": other_kind}
        run.case(("apply", bs, n, sd, op, spelling, other_kind, str(feats)))
        with time_limit(180):
            L, ms = G.mk_lazy(bs, n, sd, feats)
            D = G.dense_of(ms, sd)
            Lo, mso = G.mk_lazy(bs, n, sd, feats)
            for m in mso:
                for k, _ in feats:
                    G.get_leaf(m, k).add_(1000000)
            Do = G.dense_of(mso, sd)
            other = Do if other_kind == "dense" else Lo

            def f(x, o):
                if op == "mul3add1":
                    return x.apply(lambda t: 3 * t + 1) if spelling == "apply" else x * 3 + 1
                if op == "neg":
                    return x.apply(lambda t: -t) if spelling == "apply" else -x
                if op == "twice_plus":
                    return x.apply(lambda t, u: 2 * t + u, o) if spelling == "apply" else x * 2 + o
                if op == "sub":
                    return x.apply(lambda t, u: t - u, o) if spelling == "apply" else x - o
                if op == "where_lt":
                    return x.apply(lambda t, u: torch.where(t % 3 == 0, t, u), o)
                # comparisons (`_dispatch_comparison`) and the reductions of their result
                if op == "lt_other":
                    return (x < o).apply(lambda t: t.long())
                if op == "ge_other_shift":
                    return (x + 1000003 >= o).apply(lambda t: t.long())
                if op == "gt_scalar":
                    return (x > 10001).apply(lambda t: t.long())
                c = x > 10001 if op == "all_any_gt" else x >= 0
                return [bool(c.all()), bool(c.any())]
            try:
                r = f(L, other)
                if isinstance(r, list):
                    impl = ["ok"] + ["true" if v else "false" for v in r]
                else:
                    impl = G.members_canon(r, feats) if isinstance(r, O.LazyStackedTensorDict) else ["ok", "dense"] + G.td_canon(r, feats)
            except TimeoutError:      # a slow box is an infrastructure problem (exit 2), never a verdict
                raise
            except Exception:  # noqa: BLE001
                r, impl = None, ["err"]
            try:
                dr = f(D, Do)
            except TimeoutError:      # a slow box is an infrastructure problem (exit 2), never a verdict
                raise
            except Exception:  # noqa: BLE001
                dr = None
        run.corr("apply", case, impl, model)
        if r is not None and dr is not None:
            diff = (None if r == dr else f"{r} vs {dr}") if isinstance(r, list) else G.same_td(r, dr)
            if diff:
                run.oracle_fail("apply", case, f"lazy {op} ({spelling}, {other_kind} operand) differs from dense: {diff}", f"apply:{op}")
            else:
                run.oracle_ok("apply")
        else:
            run.oracle_ok("apply_raises")


def piece_canon(r, feats):
    """one piece of a split, in the form `resToSexp` prints"""
    if isinstance(r, O.LazyStackedTensorDict) and len(r.tensordicts) == 0:
        return ["ok", ["kind", "empty"], ["bs"] + list(r.batch_size)]
    return ["ok", G.impl_kind(r)] + G.td_canon(r, feats)


def resize_stream(run, drv, n_cases):
    """correspondence for split / chunk / repeat_interleave / repeat (model: Model/C08Resize.lean)"""
    rng = run.rng
    reqs, metas = [], []
    for _ in range(n_cases):
        bs = shapes_for(rng, run.tier)
        n = rng.randint(1, 4)
        sd = rng.randint(0, len(bs))
        feats = rng.choice([G.FEATS_PLAIN, G.FEATS_NESTED])
        full = list(bs)
        full.insert(sd, n)
        r = len(full)
        dim = rng.randrange(-r, r) if rng.random() < 0.93 else rng.choice([r, -r - 1])
        size = full[dim] if -r <= dim < r else 1
        kind = rng.choice(["split", "split", "split_int", "chunk", "repeat_interleave", "repeat", "expand", "expand"])
        if kind == "split":
            sizes, left = [], size
            while left > 0:
                c = rng.randint(0 if rng.random() < 0.1 else 1, left)
                sizes.append(c)
                left -= c
            # sizes that do not add up to the size of the dim are not drawn: TensorDict.split clips them
            # silently (torch.split refuses them): invalid input, outside the property and the model
            op = ["split", dim] + sizes
        elif kind == "split_int":
            op = ["split_int", rng.randint(1, max(1, size + 1)), dim]
        elif kind == "chunk":
            k = rng.randint(1, 4)
            op = ["chunk", k, dim]
        elif kind == "repeat_interleave":
            op = ["repeat_interleave", rng.randint(1, 3), dim]
        elif kind == "expand":
            # at least as many sizes as batch dims: new leading dims, singletons expanded, rarely a mismatch
            tgt = [rng.randint(1, 2) for _ in range(rng.choice([0, 0, 1, 2]))]
            for s_ in full:
                q = rng.random()
                tgt.append(rng.randint(2, 3) if (s_ == 1 and q < 0.6) else (s_ + 1 if q > 0.95 else s_))
            op = ["expand"] + tgt
        else:
            op = ["repeat"] + [rng.randint(1, 3) for _ in range(r if rng.random() < 0.92 else r + rng.choice([-1, 1]))]
        fs = Raw("(feats" + "".join(" (" + " ".join([k] + [str(x) for x in f]) + ")" for k, f in feats) + ")")
        metas.append((bs, n, sd, feats, op))
        # chunk(k, dim) is split(ceil(size / k), dim) (torch's definition): the model gets the split size
        mop = op if op[0] != "chunk" else ["split_int", -(-size // op[1]) if size else 1, dim]
        reqs.append(sx("c08.resize", ["bs"] + list(bs), n, sd, fs, mop))
    answers = G.ask_all(drv, reqs)
    for (bs, n, sd, feats, op), a in zip(metas, answers):
        model = parse_sx(a)
        case = {"bs": list(bs), "n": n, "sd": sd, "feats": [k for k, _ in feats], "op": op}
        run.case(("resize", bs, n, sd, str(op), str(feats)))
        run.count("resize.kind", op[0])
        with time_limit(180):
            L, ms = G.mk_lazy(bs, n, sd, feats)
            D = G.dense_of(ms, sd)

            def f(x):
                if op[0] == "split":
                    return x.split(op[2:], op[1])
                if op[0] == "split_int":
                    return x.split(op[1], op[2])
                if op[0] == "chunk":
                    return x.chunk(op[1], op[2])
                if op[0] == "repeat_interleave":
                    return x.repeat_interleave(op[1], dim=op[2])
                if op[0] == "expand":
                    return x.expand(*op[1:])
                return x.repeat(*op[1:])
            try:
                r = f(L)
                if isinstance(r, (tuple, list)):
                    impl = ["ok"] + [piece_canon(p, feats) for p in r]
                else:
                    impl = G.members_canon(r, feats)
            except TimeoutError:      # a slow box is an infrastructure problem (exit 2), never a verdict
                raise
            except Exception:  # noqa: BLE001
                r, impl = None, ["err"]
            try:
                dr = f(D)
            except TimeoutError:      # a slow box is an infrastructure problem (exit 2), never a verdict
                raise
            except Exception:  # noqa: BLE001
                dr = None
        run.count("resize.outcome", op[0] + ":" + impl[0])
        run.corr("resize", case, impl, model)
        if r is not None and dr is not None:
            if isinstance(r, (tuple, list)):
                diff = None if len(r) == len(dr) else f"{len(r)} pieces vs {len(dr)}"
                for x, y in zip(r, dr):
                    if diff is None and not (isinstance(x, O.LazyStackedTensorDict) and len(x.tensordicts) == 0):
                        diff = G.same_td(x, y)
                    elif diff is None and tuple(x.batch_size) != tuple(y.batch_size):
                        diff = f"batch size of an empty piece {tuple(x.batch_size)} vs {tuple(y.batch_size)}"
            else:
                diff = G.same_td(r, dr)
            if diff:
                run.oracle_fail("resize", case, f"lazy.{op[0]}{tuple(op[1:])} differs from dense: {diff}", f"resize:{op[0]}")
            else:
                run.oracle_ok("resize")
        else:
            run.oracle_ok("resize_raises")


def set_tensor_stream(run, drv, n_cases):
    """correspondence + oracle for `lazy[index] = tensor / number` (model: Model/C08SetTensor.lean lazySetTensor): the value
    is brought to the indexed shape of every entry (leading singleton dims dropped, then expand) and written key by key;
    value shapes: scalar, all ones (also more dims than the target), the target, the target with dims set to 1, suffixes,
    and incompatible shapes (both sides must refuse)"""
    rng = run.rng
    reqs, metas = [], []
    for _ in range(n_cases):
        bs = shapes_for(rng, run.tier)
        n = rng.randint(1, 4)
        sd = rng.randint(0, len(bs))
        f = rng.choice([(), (), (2,)])
        feats = rng.choice([[("a", f), ("b", f)], [("a", f)], [("a", f), ("n.c", f)]])
        full = list(bs)
        full.insert(sd, n)
        ix = G.gen_index_spec(rng, full, malformed=False)
        if rng.random() < 0.1:
            ix = G.gen_index_mask2(rng, bs, n, sd) or ix
        index = G.index_py(ix)
        try:
            ibs = list(torch.zeros(tuple(full))[index].shape) if full or ix else []
        except TimeoutError:      # a slow box is an infrastructure problem (exit 2), never a verdict
            raise
        except Exception:  # noqa: BLE001
            ibs = None
        target = (ibs or []) + list(f)
        kind = rng.choice(["scalar", "ones", "target", "target_ones", "suffix", "suffix_ones", "lead_ones", "bad"])
        if kind == "scalar":
            vshape = []
        elif kind == "ones":
            vshape = [1] * rng.randint(1, len(target) + 2)
        elif kind == "target":
            vshape = list(target)
        elif kind == "target_ones":
            vshape = [1 if rng.random() < 0.4 else d for d in target]
        elif kind == "suffix":
            vshape = list(target[rng.randint(0, len(target)):])
        elif kind == "suffix_ones":
            vshape = [1 if rng.random() < 0.4 else d for d in target[rng.randint(0, len(target)):]]
        elif kind == "lead_ones":
            vshape = [1] * rng.randint(1, 2) + list(target)
        else:
            vshape = [d + 1 if rng.random() < 0.5 else d for d in target] or [2]
        fs = Raw("(feats" + "".join(" (" + " ".join([k] + [str(x) for x in ff]) + ")" for k, ff in feats) + ")")
        metas.append((bs, n, sd, feats, ix, vshape, kind))
        reqs.append(sx("c08.set_tensor", ["bs"] + list(bs), n, sd, fs, G.ixs_sx(ix), ["shape"] + vshape))
    answers = G.ask_all(drv, reqs)
    for (bs, n, sd, feats, ix, vshape, kind), a in zip(metas, answers):
        model = parse_sx(a)
        case = {"bs": list(bs), "n": n, "sd": sd, "feats": [[k] + list(ff) for k, ff in feats], "ix": ix, "vshape": vshape, "kind": kind}
        run.case(("set_tensor", bs, n, sd, str(ix), str(vshape)))
        index = G.index_py(ix)
        with time_limit(180):
            L, ms = G.mk_lazy(bs, n, sd, feats)
            D = G.dense_of(ms, sd)
            cnt = 1
            for d in vshape:
                cnt *= d
            value = (torch.arange(cnt) + 900000).reshape(vshape).to(G.get_leaf(ms[0], feats[0][0]).dtype)
            try:
                L[index] = value.clone()
                impl = G.members_canon(L, feats)
            except TimeoutError:      # a slow box is an infrastructure problem (exit 2), never a verdict
                raise
            except Exception:  # noqa: BLE001
                impl = ["err"]
            try:
                D[index] = value.clone()
                dr = D
            except TimeoutError:      # a slow box is an infrastructure problem (exit 2), never a verdict
                raise
            except Exception:  # noqa: BLE001
                dr = None
        run.count("set_tensor.outcome", kind + ":" + impl[0] + "/" + model[0])
        w_mask_rank = max([len(it[1]) for it in ix if it[0] == "mask"] or [0])
        if G.has_dup_targets(ix):
            run.count("set_tensor.outside_model", "duplicate_targets")
        elif impl[0] == "err" and model[0] == "ok":
            # the implementation may refuse what the model accepts only by RAISING (allowed by the property) -- but a partial
            # write before the raise would differ: compare the members with the untouched ones
            run.count("set_tensor.impl_raises", kind)
        else:
            run.corr("setitem_tensor", case, impl, model)
        if impl[0] == "ok" and dr is not None:
            S = torch.stack([m.clone() for m in ms], sd)
            diff = G.same_td(S, dr)
            if diff:
                run.oracle_fail("set_tensor", case, f"after lazy[index] = tensor{tuple(vshape)} the members differ from the dense stack after the same write: {diff}", "set_tensor")
            else:
                run.oracle_ok("set_tensor")


def view_stream(run, drv, n_cases):
    """correspondence for view / reshape / flatten of a lazy stack, flatten branch (model: Model/C08View.lean):
    stack dim and number of the lazily stacked pieces, the kind of every piece, every value -- and the SPEC
    `T.flattenAt` on the dense stack against torch's own reshape of the dense stack"""
    from tensordict import LazyStackedTensorDict
    rng = run.rng
    reqs, metas = [], []
    for _ in range(n_cases):
        rank = rng.choice([0, 1, 2, 2, 3])
        bs = tuple(rng.choice([1, 2, 2, 3]) for _ in range(rank))
        n = rng.randint(1, 3)
        sd = rng.randint(0, rank)
        feats = rng.choice([G.FEATS_PLAIN, G.FEATS_NESTED])
        full = list(bs)
        full.insert(sd, n)
        r = len(full)
        a = rng.randrange(r)
        b = rng.randrange(a, r)
        merged = 1
        for x in full[a:b + 1]:
            merged *= x
        target = full[:a] + [merged] + full[b + 1:]
        how = rng.choice(["flatten", "flatten", "view", "view_infer", "reshape", "reshape_infer"])
        if how == "flatten":
            s_, e_ = (a - r if rng.random() < 0.3 else a), (b - r if rng.random() < 0.3 else b)
            op, call = ["flatten", s_, e_], ("flatten", (s_, e_))
        else:
            given = list(target)
            if how.endswith("_infer"):
                given[rng.randrange(len(given))] = -1
            op, call = ["view"] + target, (how.split("_")[0], tuple(given))
        fs = Raw("(feats" + "".join(" (" + " ".join([k] + [str(x) for x in f]) + ")" for k, f in feats) + ")")
        metas.append((bs, n, sd, feats, op, call, target))
        reqs.append(sx("c08.view", ["bs"] + list(bs), n, sd, fs, op))
    answers = G.ask_all(drv, reqs)
    for (bs, n, sd, feats, op, call, target), a in zip(metas, answers):
        model = parse_sx(a)
        case = {"bs": list(bs), "n": n, "sd": sd, "feats": [k for k, _ in feats], "call": [call[0], list(call[1])], "target": target}
        run.case(("view", bs, n, sd, str(call), str(feats)))
        with time_limit(180):
            L, ms = G.mk_lazy(bs, n, sd, feats)
            D = G.dense_of(ms, sd)
            try:
                r = getattr(L, call[0])(*call[1])
                if isinstance(r, LazyStackedTensorDict):
                    pieces = [["lazy", t.stack_dim] if isinstance(t, LazyStackedTensorDict) else "member" for t in r.tensordicts]
                    kindv = ["kind", "lazy", r.stack_dim, len(r.tensordicts), ["pieces"] + pieces]
                else:
                    kindv = ["kind", type(r).__name__]
                impl = ["ok", kindv, ["value"] + G.td_canon(r, feats), ["spec"] + G.td_canon(D.reshape(*target), feats)]
            except TimeoutError:      # a slow box is an infrastructure problem (exit 2), never a verdict
                raise
            except Exception:  # noqa: BLE001
                r, impl = None, ["err"]
            try:
                dr = getattr(D, call[0])(*call[1])
            except TimeoutError:      # a slow box is an infrastructure problem (exit 2), never a verdict
                raise
            except Exception:  # noqa: BLE001
                dr = None
        run.count("view.outcome", call[0] + ":" + impl[0])
        run.corr("view", case, impl, model)
        if r is not None and dr is not None:
            diff = G.same_td(r, dr)
            if diff:
                run.oracle_fail("view", case, f"lazy {call[0]}{call[1]} differs from dense: {diff}", f"view:{call[0]}")
            else:
                run.oracle_ok("view")


def out_stream(run, drv, n_cases):
    """correspondence + oracle for torch.cat / torch.stack of lazy stacks with out=<lazy stack>
    (model: Model/C08Out.lean): the members of `out` afterwards"""
    from tensordict import LazyStackedTensorDict
    rng = run.rng
    feats = G.FEATS_PLAIN
    fs = Raw("(feats" + "".join(" (" + " ".join([k] + [str(x) for x in f]) + ")" for k, f in feats) + ")")
    reqs, metas = [], []
    for _ in range(n_cases):
        rank = rng.choice([0, 1, 1, 2])
        bs = tuple(rng.choice([1, 2, 3]) for _ in range(rank))
        sd = rng.randint(0, rank)
        r = rank + 1
        if rng.random() < 0.55:
            dim = rng.randrange(-r, r)
            dimn = dim % r
            nops = rng.randint(1, 3)
            n0 = rng.randint(1, 3)
            ops = []
            for j in range(nops):
                bsj, nj = list(bs), n0
                if dimn == sd:
                    nj = rng.randint(1, 3)
                elif rng.random() < 0.8:
                    md = dimn if dimn < sd else dimn - 1
                    bsj[md] = rng.choice([1, 2, 3])
                ops.append((tuple(bsj), nj))
            sdo = rng.randrange(r)
            metas.append(("cat", sd, dim, sdo, ops))
            reqs.append(sx("c08.catout", sd, dim, sdo, fs, *[Raw(sx("op", ["bs"] + list(b), n)) for b, n in ops]))
        else:
            n = rng.randint(1, 3)
            k = rng.randint(1, 3)
            dim = rng.randrange(r + 1)
            sdo = rng.randrange(r + 1)
            metas.append(("stack", sd, dim, sdo, (bs, n, k)))
            reqs.append(sx("c08.stackout", sd, dim, sdo, fs, ["bs"] + list(bs), n, k))
    answers = G.ask_all(drv, reqs)
    for (fn, sd, dim, sdo, spec), a in zip(metas, answers):
        model = parse_sx(a)
        case = {"fn": fn, "sd": sd, "dim": dim, "out_sd": sdo, "operands": [list(x) if isinstance(x, tuple) else x for x in (spec if fn == "cat" else [spec])]}
        run.case(("out", fn, sd, dim, sdo, str(spec)))
        with time_limit(180):
            ops = spec if fn == "cat" else [(spec[0], spec[1])] * spec[2]
            Ls, Ds = [], []
            for j, (b, n) in enumerate(ops):
                L, ms = G.mk_lazy(b, n, sd, feats)
                for m in ms:
                    for kk, _ in feats:
                        G.get_leaf(m, kk).add_(j * 1000000)
                Ls.append(L)
                Ds.append(G.dense_of(ms, sd))
            try:
                dr = torch.cat(Ds, dim) if fn == "cat" else torch.stack(Ds, dim)
            except TimeoutError:
                raise
            except Exception:  # noqa: BLE001
                dr = None
            impl, O_ = ["err"], None
            if dr is not None:
                obs = list(dr.batch_size)
                n_o = obs.pop(sdo)
                O_, oms = G.mk_lazy(tuple(obs), n_o, sdo, feats) if n_o > 0 else (None, None)
                if O_ is not None:
                    for m in oms:
                        for kk, _ in feats:
                            G.get_leaf(m, kk).add_(9 * 1000000)
                    try:
                        res = torch.cat(Ls, dim, out=O_) if fn == "cat" else torch.stack(Ls, dim, out=O_)
                        impl = G.members_canon(O_, feats)
                    except TimeoutError:
                        raise
                    except Exception:  # noqa: BLE001
                        impl = ["err"]
        run.count("out.outcome", fn + ":" + impl[0])
        if dr is not None and O_ is not None:
            run.corr("out_lazy", case, impl, model)
            if impl[0] == "ok":
                # the caller's member objects hold the result
                diff = G.same_td(torch.stack([m.clone() for m in oms], sdo), dr) or G.same_td(O_, dr)
                if diff:
                    run.oracle_fail("out_lazy", case, f"torch.{fn}(lazy stacks, {dim}, out=lazy stack along {sdo}): out differs from the dense result: {diff}", f"out:{fn}")
                else:
                    run.oracle_ok("out_lazy")
            else:
                run.oracle_ok("out_lazy_raises")
        else:
            run.oracle_ok("out_lazy_skipped")


def spec_stream(run, drv, n_cases):
    """the Lean index spec (idxShape/idxCoord) against torch itself"""
    rng = run.rng
    reqs, metas = [], []
    for _ in range(n_cases):
        rank = rng.choice([1, 2, 3, 3])
        shape = tuple(rng.choice([1, 2, 3, 4]) for _ in range(rank))
        ix = G.gen_index_spec(rng, shape, drop_ell=True)
        metas.append((shape, ix))
        reqs.append(sx("c08.spec", ["shape"] + list(shape), G.ixs_sx(ix)))
    answers = G.ask_all(drv, reqs)
    for (shape, ix), a in zip(metas, answers):
        x = torch.arange(G.numel(shape)).reshape(shape)
        try:
            y = x[G.index_py(ix)]
            impl = ["ok", ["shape"] + list(y.shape), ["vals"] + y.reshape(-1).tolist()]
        except TimeoutError:      # a slow box is an infrastructure problem (exit 2), never a verdict
            raise
        except Exception:  # noqa: BLE001
            impl = ["err"]
        run.case(("spec", shape, str(ix)))
        run.corr("spec_vs_torch", {"shape": list(shape), "ix": ix}, impl, parse_sx(a))


def main():
    run = Run("C08")
    run.rule = ("member batch shapes of rank 0..2 (dims 1..3), 1..4 members, every stack dim (also spelled negative), plain and nested members; "
                "indices from the property's grammar (ints incl. negative, 13 slice shapes, None, Ellipsis, at most one list/range/int tensor rank 1-2/mask rank 1-2 "
                "before/on/after the stack dim); a case is non-trivial when the index is non-empty")
    run.trusted += [
        "Model/C08Tensor.lean + Model/C08Index.lean: our rendering of torch (stack/select/index as coordinate maps); validated against torch each run (stream spec_vs_torch), not proved",
        "Model/C08Lazy.lean + Model/C08Lazy2.lean: hand transcription of tensordict/_lazy.py (_split_index, __getitem__, __setitem__, shape ops, ...) and _torch_func.py (_lazy_cat, _stack), also over members that are lazy stacks; tied to the source by the correspondence streams of this check",
        "harness/c08_ast.py + c08_transcribed.json: the 35 transcribed functions are pinned by a digest of their syntax tree (docstrings, string literals, annotations stripped); an edit is reported as a broken [transcription] correspondence until the model is re-read and the table re-pinned",
        "object identity (which positions of a result share a member object) is outside the Lean model (members are values): covered by the oracle stream alias_stream only",
    ]
    run.build_and_audit(["TdVerif.Props.C08"])
    drv = run.driver()
    quick = run.tier == "quick"
    # structural tie: the transcribed functions are the ones the model was written from
    A.obligations(run, str(REPO))
    spec_stream(run, drv, 600 if quick else 6000)
    read_stream(run, drv, 1500 if quick else 20000)
    read_stream(run, drv, 200 if quick else 2000, malformed=True)
    if not quick:
        read_stream(run, drv, 0, cases=exhaustive_read_cases())
    write_stream(run, drv, 1000 if quick else 15000)
    shape_stream(run, drv, 800, exhaustive=not quick)
    cat_stream(run, drv, 500 if quick else 6000)
    misc_stream(run, drv, 600 if quick else 6000)
    two_level_stream(run, drv, 500 if quick else 8000)
    shape2_stream(run, drv, 300 if quick else 5000)
    write2_stream(run, drv, 300 if quick else 5000)
    apply_stream(run, drv, 400 if quick else 6000)
    resize_stream(run, drv, 500 if quick else 8000)
    out_stream(run, drv, 300 if quick else 5000)
    view_stream(run, drv, 300 if quick else 5000)
    set_tensor_stream(run, drv, 300 if quick else 5000)
    # extended domain: the property's oracle on every supported operation of the real code
    O.read_ops_stream(run, 1200 if quick else 14000)
    O.mut_ops_stream(run, 800 if quick else 12000)
    O.member_write_stream(run, 300 if quick else 4000)
    O.lock_history_stream(run, 300 if quick else 4000)
    O.mask3_stream(run, 150 if quick else 2500)
    O.cat_stack_stream(run, 500 if quick else 8000)
    O.stack_of_stacks_stream(run, 500 if quick else 8000)
    O.alias_stream(run, 500 if quick else 8000)
    O.source_alias_stream(run, 500 if quick else 8000)
    H.history_stream(run, 400 if quick else 6000)
    run.finish("proof")


if __name__ == "__main__":
    main_guard(main)
