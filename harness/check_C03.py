"""C03 — indexing reads and writes select exactly the elements torch indexing selects (DESIGN §6 C03).

Streams
  spec_vs_torch   TorchSpec (Lean, our rendering of torch) vs torch itself on bare tensors      (validates the trusted spec)
  ellipsis        Td.convertEllipsis vs tensordict.utils.convert_ellipsis_to_idx              (correspondence)
  batch_size      Td.getitemBatchSize vs tensordict.utils._getitem_batch_size                 (correspondence)
  getitem         Td.getitem vs td[idx]: outcome, batch_size, names, every leaf (values = source offsets), view bit
  setitem         Td.setitem vs td[idx] = scalar / tensor: outcome and the full content of every leaf afterwards
  setitem_collection  Td.setitemColl vs td[idx] = dict / TensorDict (expand, batch reassignment, keys missing from the destination)
  oracle          torch on a proxy tensor of the batch shape + torch on every leaf (the property itself, on the real code);
                  extended domain (oracle only): numpy index arrays
  subtd_read/write  Td.subInit/subGet/subNames/subSet vs td._get_sub_tensordict(idx) (c03_sub.py)
  ext-tensorclass / ext-lazy  other containers, property oracle only (c03_containers.py)
  at-api          td.get_at / set_at_ / update_at_ (index on the entry itself) vs TorchSpec + torch (c03_at.py)
  history         two-step histories r = td[i1]; r[i2] = v / td[i1][i2], property oracle only (c03_hist.py)
  pins            ast fingerprints of the 18 hand-transcribed functions (c03_pins.py)
  corpus/witness  minimised past failures and the fixed witnesses of the known defects, replayed on every run
"""
from __future__ import annotations

import json
import warnings

from common import Infra, Run, err_class, main_guard, parse_sx, sx, time_limit

warnings.filterwarnings("ignore")

import c03_gen as G  # noqa: E402
import c03_streams as S  # noqa: E402


def main():
    run = Run("C03")
    run.rule = ("index expressions of the C03 grammar (ints ±/out of range, slices of every start/stop/step sign incl. empty, None, Ellipsis, lists, ranges, "
                "integer tensors of rank 0..2, boolean masks of rank 1..2, bare or in tuples up to batch rank + Nones + overrun) on batch shapes of rank 0..3 "
                "with dims 0..4, leaves with 0..2 feature dims, one nested tensordict; structure-directed random generation (mostly valid + malformed) "
                "and, in thorough, exhaustive enumeration of a fixed alphabet; a case is non-trivial if it is a distinct (batch shape, feature shapes, index, read|write value) tuple")
    run.trusted += [
        "TorchSpec (lean/TdVerif/Model/C03Index.lean, namespace TorchSpec): our rendering of torch's index semantics; validated on every run against torch itself (stream spec_vs_torch), not proved",
        "Model/C03Index.lean namespace Td: hand transcription of convert_ellipsis_to_idx, _check_index_ndim, _getitem_batch_size, _get_names_idx, __getitem__, _index_tensordict, __setitem__ (both branches, incl. the _SubTensorDict path for keys missing from the destination); tied by the correspondence streams",
        "SliceSpec.indices = transcription of CPython slice.indices (validated by C18 against slice.indices)",
        "values inside leaves are computed by torch itself in the implementation (tensor[index]); what is modelled is which torch call is made with which index on which operand, and the metadata computed beside it",
    ]
    run.assumptions += [
        "index tensors / masks are well formed (data length = numel of their shape); at most one Ellipsis per index (torch 2.14 accepts several, tensordict rejects: excluded point, probed on every run and recorded in the evidence notes)",
        "numpy index arrays are exercised by the oracle only (extended domain), not modelled; nested python lists, lazy stacks and tensorclasses are not exercised here (C08 / C15)",
    ]
    run.build_and_audit(["TdVerif.Props.C03"])
    # ast-shape obligations: every hand-transcribed function still has the source the model was transcribed from
    import c03_pins
    c03_pins.check(run)
    drv = run.driver()

    if run.replay:
        # the oracle on the recorded failing inputs first (site `replay`), then the whole run with the recorded seed / tier
        S.replay(run, drv, run.replay)

    S.corpus(run, drv)
    S.spec_vs_torch(run, drv)
    S.helpers(run, drv)
    S.getitem(run, drv)
    S.setitem(run, drv)
    S.extended(run, drv)
    import c03_sub
    c03_sub.subtd(run, drv)
    c03_sub.subsub_model(run, drv)
    import c03_at
    c03_at.at_api(run, drv)
    import c03_containers
    c03_containers.containers(run, drv)
    import c03_hist
    c03_hist.histories(run, drv)
    c03_hist.rereads(run, drv)
    c03_hist.subsub(run, drv)
    c03_hist.flagged(run, drv)
    S.witnesses(run, drv)
    if run.tier == "thorough":
        run.leanchecker(["TdVerif.Props.C03"])
    run.finish("proof")


if __name__ == "__main__":
    main_guard(main)
