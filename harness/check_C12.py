"""C12 — chunked / multi-process / multi-thread execution equals sequential (DESIGN §6 C12)."""
from __future__ import annotations

from common import Run, main_guard


def main():
    run = Run("C12")
    run.rule = ("split: exhaustive n<=12 x chunksize 0..n+1 x num_chunks 1..n+1 x workers 1..4 x generator on/off x dim position; "
                "map: sampled configurations over real process pools; threads: every completion order of <=5 tasks; "
                "a case is non-trivial if it is a distinct configuration with n>0")
    run.trusted += [
        "Model/C12Chunk.lean, Model/C12Pool.lean: hand transcriptions of _split_tensordict, TensorDict.split(int), chunk, _map, "
        "_multithread_apply_flat/_rebuild, _apply_nest (validated each run by the correspondence streams)",
        "multiprocessing / OS scheduling / shared-memory coherence are outside the model: exercised with real pools, not proved",
    ]
    run.assumptions += ["worker functions are slice-wise (row-wise) along the mapped dim; imap preserves submission order (CPython multiprocessing)"]
    from c12_fns import guarded_stream, hard_deadline, single_threaded_torch
    single_threaded_torch()
    from c12_fns import route_metadata_race
    route_metadata_race(run)
    quick = run.tier == "quick"
    import c12_pins
    c12_pins.for_check(run, "C12")
    run.build_and_audit(["TdVerif.Props.C12"])
    drv = run.driver()
    import json
    from common import VERIF
    import c12_map
    if run.replay:
        # ./check C12 --replay <file>: re-run the failing inputs recorded in a replay file
        rep = json.loads(open(run.replay).read())
        n = c12_map.replay_cases(run, drv, [f.get("case") for f in rep.get("failures", [])])
        run.notes.append(f"replayed {n} recorded map cases from {run.replay}")
        run.finish("proof")
    corpus = [json.loads(p.read_text()) for p in sorted((VERIF / "corpus" / "C12").glob("*.json"))]
    run.count("corpus.cases", len(corpus))
    c12_map.replay_cases(run, drv, [c["case"] for c in corpus], stream="map(corpus)")
    import c12_split
    with hard_deadline(300 if quick else 1500, "split"):
        guarded_stream(run, "split", c12_split.run_split, run, drv)
    if "--split-only" not in __import__("sys").argv:
        import c12_map
        with hard_deadline(420 if quick else 2400, "map (process pools)"):
            guarded_stream(run, "map", c12_map.run_map, run, drv)
        with hard_deadline(300 if quick else 1500, "map (extended domain)"):
            guarded_stream(run, "map-ext", c12_map.run_map_ext, run)
            # the pool `map` makes itself: worker ids handed out once each, seeds = base + id from the generator argument, worker_threads
            guarded_stream(run, "seeding", c12_map.run_seeding, run)
        if run.tier != "quick":
            c12_map.probe_max_tasks_per_child(run)
        import c12_threads
        with hard_deadline(420 if quick else 2400, "threads"):
            guarded_stream(run, "threads", c12_threads.run_threads, run, drv)
            # the metadata writer task of a non-tensor entry under forced schedules against the single-threaded save (model + theorems: Props/C10)
            guarded_stream(run, "metadata-task", c12_threads.run_metadata_race, run, None, tag="c12m")
    run.finish("proof")


if __name__ == "__main__":
    main_guard(main)
