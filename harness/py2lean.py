"""Mini-Python -> Lean 4 translator (the *regenerated* part of the model).

Subset: straight-line integer code with `if/elif/else`, `x is None` tests,
assignments to names, `return` of an int / tuple of ints / None-able names,
`raise`.  The function is translated to a Lean `def` by continuation passing:
`S; rest` with `S = if c: A else: B` becomes `if c then [[A; rest]] else [[B; rest]]`
(the rest is duplicated, which keeps each path's variable typing independent), an
assignment becomes a shadowing `let`.  A name can be `int` or `opt` (Optional[int]);
`if x is None` narrows `x` with a `match`.  Anything outside the subset raises
`Untranslatable` -- the caller reports a *broken tie*, never a pass.
"""
from __future__ import annotations

import ast
import inspect
import textwrap


class Untranslatable(Exception):
    pass


def _v(name: str) -> str:
    return "v_" + name


class Tr:
    def __init__(self, ret_arity: int):
        self.ret_arity = ret_arity          # 0 = the function returns a list of ints
        self.fall = [lambda env: '.error "fallthrough"']   # what reaching the end of a block means (stack: loops)

    # ---------------------------------------------------------------- expr
    def iexpr(self, e, env) -> str:
        """integer-valued expression"""
        if isinstance(e, ast.Constant) and isinstance(e.value, int) and not isinstance(e.value, bool):
            return f"({e.value} : Int)"
        if isinstance(e, ast.Name):
            t = env.get(e.id)
            if t != "int":
                raise Untranslatable(f"name {e.id} used as int but is {t}")
            return _v(e.id)
        if isinstance(e, ast.Attribute) and isinstance(e.value, ast.Name):
            nm = f"{e.value.id}_{e.attr}"
            if env.get(nm) != "int":
                raise Untranslatable(f"attribute {nm} used as int but is {env.get(nm)}")
            return _v(nm)
        if isinstance(e, ast.UnaryOp) and isinstance(e.op, ast.USub):
            return f"(- {self.iexpr(e.operand, env)})"
        if isinstance(e, ast.BinOp):
            a, b = self.iexpr(e.left, env), self.iexpr(e.right, env)
            if isinstance(e.op, ast.Add):
                return f"({a} + {b})"
            if isinstance(e.op, ast.Sub):
                return f"({a} - {b})"
            if isinstance(e.op, ast.Mult):
                return f"({a} * {b})"
            if isinstance(e.op, ast.FloorDiv):
                return f"(Int.fdiv {a} {b})"
            if isinstance(e.op, ast.Mod):
                return f"(Int.fmod {a} {b})"
            raise Untranslatable(ast.dump(e.op))
        if isinstance(e, ast.Call) and isinstance(e.func, ast.Name) and e.func.id in ("max", "min") and len(e.args) == 2 and not e.keywords:
            return f"({e.func.id} {self.iexpr(e.args[0], env)} {self.iexpr(e.args[1], env)})"
        if isinstance(e, ast.Call) and isinstance(e.func, ast.Name) and e.func.id == "len" and len(e.args) == 1 and isinstance(e.args[0], ast.Name) and env.get(e.args[0].id) == "list":
            return f"(Int.ofNat {_v(e.args[0].id)}.length)"
        if isinstance(e, ast.Subscript) and isinstance(e.value, ast.Name) and env.get(e.value.id) == "list":
            # x[i]: only generated for indices known to be in range (loop variable of `range(len(x))`)
            return f"({_v(e.value.id)}.getD (Int.toNat {self.iexpr(e.slice, env)}) 0)"
        raise Untranslatable("int expr: " + ast.dump(e))

    @staticmethod
    def _nonzero_fact(t):
        """`x > 0`, `x < 0`, `x != 0` (x a name): the name is known non-zero in the conjuncts that follow"""
        if isinstance(t, ast.Compare) and len(t.ops) == 1 and isinstance(t.left, ast.Name) and isinstance(t.comparators[0], ast.Constant) \
                and t.comparators[0].value == 0 and isinstance(t.ops[0], (ast.Gt, ast.Lt, ast.NotEq)):
            return t.left.id
        return None

    def bexpr(self, e, env, nz=frozenset()) -> str:
        """condition.  Python evaluates `and`/`or` left to right and stops early; Lean's `∧`/`∨` on decidable
        propositions have no effect to skip, so the only thing short-circuiting can change is whether a
        division by zero is *reached*.  A `//` or `%` inside a condition is therefore accepted only when its
        divisor is a name that an earlier conjunct of the same `and` chain proved non-zero (`nz`)."""
        if isinstance(e, ast.BoolOp):
            op = " ∧ " if isinstance(e.op, ast.And) else " ∨ "
            parts = []
            known = set(nz)
            for v in e.values:
                parts.append(self.bexpr(v, env, frozenset(known) if isinstance(e.op, ast.And) else nz))
                f = self._nonzero_fact(v)
                if f is not None:
                    known.add(f)
            return "(" + op.join(parts) + ")"
        if isinstance(e, ast.UnaryOp) and isinstance(e.op, ast.Not):
            return f"(¬ {self.bexpr(e.operand, env, nz)})"
        for n in ast.walk(e):
            if isinstance(n, ast.BinOp) and isinstance(n.op, (ast.FloorDiv, ast.Mod)):
                nonzero_const = isinstance(n.right, ast.Constant) and isinstance(n.right.value, int) and not isinstance(n.right.value, bool) and n.right.value != 0
                if not (nonzero_const or (isinstance(n.right, ast.Name) and n.right.id in nz)):
                    raise Untranslatable("division in a condition whose divisor is not guarded by an earlier `d > 0` / `d != 0` conjunct")
        nt = self._is_none_test(e)
        if nt is not None:
            nm, positive = nt
            t = env.get(nm)
            if t == "opt":
                return f"({_v(nm)}.isNone = true)" if positive else f"({_v(nm)}.isSome = true)"
            if t in ("int", "list"):
                # the caller declared this name as an int / a list: statically not None
                return "False" if positive else "True"
            raise Untranslatable(f"is-None test on {nm}: {t}")
        if isinstance(e, ast.Compare):
            parts = []
            left = e.left
            for op, right in zip(e.ops, e.comparators):
                sym = {ast.Lt: "<", ast.LtE: "≤", ast.Gt: ">", ast.GtE: "≥", ast.Eq: "=", ast.NotEq: "≠"}.get(type(op))
                if sym is None:
                    raise Untranslatable("compare op " + ast.dump(op))
                parts.append(f"({self.iexpr(left, env)} {sym} {self.iexpr(right, env)})")
                left = right
            return "(" + " ∧ ".join(parts) + ")"
        raise Untranslatable("bool expr: " + ast.dump(e))

    # ---------------------------------------------------------------- stmts
    @staticmethod
    def _is_none_test(t):
        """returns (varname, positive) for `x is None` / `x is not None`"""
        if isinstance(t, ast.Compare) and len(t.ops) == 1 and isinstance(t.comparators[0], ast.Constant) and t.comparators[0].value is None:
            tgt = t.left
            if isinstance(tgt, ast.Name):
                nm = tgt.id
            elif isinstance(tgt, ast.Attribute) and isinstance(tgt.value, ast.Name):
                nm = f"{tgt.value.id}_{tgt.attr}"
            else:
                return None
            if isinstance(t.ops[0], ast.Is):
                return nm, True
            if isinstance(t.ops[0], ast.IsNot):
                return nm, False
        return None

    def block(self, stmts, env, ind) -> str:
        pad = "  " * ind
        if not stmts:
            return pad + self.fall[-1](env)
        s, rest = stmts[0], stmts[1:]
        # ---- normalise AnnAssign / AugAssign to Assign
        if isinstance(s, ast.AnnAssign) and s.value is not None and isinstance(s.target, ast.Name):
            s = ast.Assign(targets=[s.target], value=s.value)
        if isinstance(s, ast.AugAssign) and isinstance(s.target, ast.Name):
            s = ast.Assign(targets=[s.target], value=ast.BinOp(left=ast.Name(id=s.target.id, ctx=ast.Load()), op=s.op, right=s.value))
        # ---- division guard: python raises ZeroDivisionError where Lean's fdiv/fmod are total
        if isinstance(s, (ast.Assign, ast.Return)) and s.value is not None:
            divs = [n.right for n in ast.walk(s.value) if isinstance(n, ast.BinOp) and isinstance(n.op, (ast.FloorDiv, ast.Mod))]
            if divs and not getattr(s, "_guarded", False):
                s._guarded = True   # (the node is shared by every duplicated continuation: reset it afterwards)
                try:
                    g = " ∨ ".join(f"({self.iexpr(d, env)} = 0)" for d in divs)
                    return f'{pad}if ({g}) then .error "ZeroDivisionError" else (\n' + self.block([s] + list(rest), env, ind + 1) + ")"
                finally:
                    s._guarded = False
        # ---- list copy, list element assignment
        if isinstance(s, ast.Assign) and len(s.targets) == 1 and isinstance(s.targets[0], ast.Name) and isinstance(s.value, ast.Call) \
                and isinstance(s.value.func, ast.Name) and s.value.func.id in ("_copy", "list") and len(s.value.args) == 1 \
                and isinstance(s.value.args[0], ast.Name) and env.get(s.value.args[0].id) == "list":
            env2 = dict(env); env2[s.targets[0].id] = "list"
            return f"{pad}let {_v(s.targets[0].id)} : List Int := {_v(s.value.args[0].id)}\n" + self.block(rest, env2, ind)
        if isinstance(s, ast.Assign) and len(s.targets) == 1 and isinstance(s.targets[0], ast.Subscript) and isinstance(s.targets[0].value, ast.Name) \
                and env.get(s.targets[0].value.id) == "list":
            nm = s.targets[0].value.id
            return (f"{pad}let {_v(nm)} : List Int := {_v(nm)}.set (Int.toNat {self.iexpr(s.targets[0].slice, env)}) {self.iexpr(s.value, env)}\n"
                    + self.block(rest, env, ind))
        # ---- for i in range(len(xs)): body   (accumulator loop -> foldlM in Except)
        if isinstance(s, ast.For):
            it = s.iter
            if not (isinstance(s.target, ast.Name) and isinstance(it, ast.Call) and isinstance(it.func, ast.Name) and it.func.id == "range"
                    and len(it.args) == 1 and isinstance(it.args[0], ast.Call) and isinstance(it.args[0].func, ast.Name)
                    and it.args[0].func.id == "len" and isinstance(it.args[0].args[0], ast.Name) and env.get(it.args[0].args[0].id) == "list") or s.orelse:
                raise Untranslatable("for loop shape")
            xs = it.args[0].args[0].id
            assigned = []
            for n in ast.walk(ast.Module(body=s.body, type_ignores=[])):
                tg = None
                if isinstance(n, ast.Assign) and isinstance(n.targets[0], ast.Name):
                    tg = n.targets[0].id
                if isinstance(n, ast.Assign) and isinstance(n.targets[0], ast.Subscript) and isinstance(n.targets[0].value, ast.Name):
                    tg = n.targets[0].value.id      # `xs[i] = v` inside the loop: the list is loop state too
                if isinstance(n, (ast.AugAssign, ast.AnnAssign)) and isinstance(n.target, ast.Name):
                    tg = n.target.id
                if tg and tg in env and tg not in assigned:
                    assigned.append(tg)
            if not assigned:
                raise Untranslatable("loop without accumulator")
            st_types = [env[a] for a in assigned]
            lean_t = {"int": "Int", "opt": "Option Int", "list": "List Int"}
            tup_t = " × ".join(lean_t[t] for t in st_types)
            tup_v = ", ".join(_v(a) for a in assigned)

            def fall(e2, assigned=assigned, st_types=st_types):
                parts = []
                for a, t in zip(assigned, st_types):
                    parts.append(f"(some {_v(a)})" if (t == "opt" and e2.get(a) == "int") else _v(a))
                return ".ok (" + ", ".join(parts) + ")"
            env_body = dict(env); env_body[s.target.id] = "int"
            self.fall.append(fall)
            body = self.block(list(s.body), env_body, ind + 2)
            self.fall.pop()
            out = f"{pad}match (List.range {_v(xs)}.length).foldlM (m := Except String) (fun (st__ : {tup_t}) (i__ : Nat) =>\n"
            out += f"{pad}    let {_v(s.target.id)} : Int := Int.ofNat i__\n"
            out += f"{pad}    let ({tup_v}) := st__\n" if len(assigned) > 1 else f"{pad}    let {tup_v} := st__\n"
            out += body + f")\n{pad}    ({tup_v}) with\n"
            out += f"{pad}| .error e__ => .error e__\n"
            out += f"{pad}| .ok ({tup_v}) => (\n" + self.block(rest, env, ind + 1) + ")"
            return out
        if isinstance(s, ast.Expr) and isinstance(s.value, ast.Constant) and isinstance(s.value.value, str):
            return self.block(rest, env, ind)  # docstring
        if isinstance(s, ast.Pass):
            return self.block(rest, env, ind)
        if isinstance(s, ast.Assign):
            if len(s.targets) != 1 or not isinstance(s.targets[0], ast.Name):
                raise Untranslatable("assign target")
            tgt = s.targets[0].id
            # opt-to-opt copy
            src = s.value
            srcname = None
            if isinstance(src, ast.Name):
                srcname = src.id
            elif isinstance(src, ast.Attribute) and isinstance(src.value, ast.Name):
                srcname = f"{src.value.id}_{src.attr}"
            env2 = dict(env)
            if srcname is not None and env.get(srcname) == "opt":
                env2[tgt] = "opt"
                return f"{pad}let {_v(tgt)} : Option Int := {_v(srcname)}\n" + self.block(rest, env2, ind)
            if isinstance(src, ast.Constant) and src.value is None:
                env2[tgt] = "opt"
                return f"{pad}let {_v(tgt)} : Option Int := none\n" + self.block(rest, env2, ind)
            env2[tgt] = "int"
            return f"{pad}let {_v(tgt)} : Int := {self.iexpr(src, env)}\n" + self.block(rest, env2, ind)
        if isinstance(s, ast.Return) and isinstance(s.value, ast.Name) and env.get(s.value.id) == "list" and self.ret_arity == 0:
            return pad + f".ok {_v(s.value.id)}"
        if isinstance(s, ast.Return):
            v = s.value
            elts = v.elts if isinstance(v, ast.Tuple) else [v]
            if len(elts) != self.ret_arity:
                raise Untranslatable("return arity")
            return pad + ".ok (" + ", ".join(self.iexpr(x, env) for x in elts) + ")"
        if isinstance(s, ast.Raise):
            exc = s.exc
            name = "Exception"
            if isinstance(exc, ast.Call) and isinstance(exc.func, ast.Name):
                name = exc.func.id
            elif isinstance(exc, ast.Name):
                name = exc.id
            return pad + f'.error "{name}"'
        if isinstance(s, ast.If):
            nt = self._is_none_test(s.test)
            if nt is not None:
                nm, positive = nt
                t = env.get(nm)
                if t == "opt":
                    env_none = dict(env)
                    env_some = dict(env)
                    env_some[nm] = "int"
                    a_stmts, b_stmts = (s.body, s.orelse) if positive else (s.orelse, s.body)
                    out = f"{pad}match {_v(nm)} with\n"
                    out += f"{pad}| none => (\n" + self.block(list(a_stmts) + rest, env_none, ind + 1) + ")\n"
                    out += f"{pad}| some {_v(nm)} => (\n" + self.block(list(b_stmts) + rest, env_some, ind + 1) + ")"
                    return out
                if t in ("int", "list"):
                    # statically known: never None (declared as an int / a list by the caller)
                    taken = s.orelse if positive else s.body
                    return self.block(list(taken) + rest, env, ind)
                raise Untranslatable(f"is-None test on unknown {nm}")
            c = self.bexpr(s.test, env)
            out = f"{pad}if {c} then (\n" + self.block(list(s.body) + rest, env, ind + 1) + ")\n"
            out += f"{pad}else (\n" + self.block(list(s.orelse) + rest, env, ind + 1) + ")"
            return out
        raise Untranslatable("stmt: " + ast.dump(s)[:200])


def translate_function(fn, lean_name: str, params: list[tuple[str, str]], ret_arity: int) -> str:
    """params: list of (python-visible name, 'int' | 'opt').  A python parameter `p` of a
    record type is passed as several entries named `p_field`."""
    src = textwrap.dedent(inspect.getsource(fn))
    tree = ast.parse(src)
    fdef = tree.body[0]
    if not isinstance(fdef, ast.FunctionDef):
        raise Untranslatable("not a function")
    env = {n: t for n, t in params}
    tr = Tr(ret_arity)
    body = tr.block(list(fdef.body), env, 1)
    lean_t = {"int": "Int", "opt": "Option Int", "list": "List Int"}
    sig = " ".join(f"({_v(n)} : {lean_t[t]})" for n, t in params)
    ret = " × ".join(["Int"] * ret_arity) if ret_arity else "List Int"
    return f"def {lean_name} {sig} : Except String ({ret}) :=\n{body}\n"
