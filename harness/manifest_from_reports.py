"""manifest_from_reports.py <report.md> <Cxx>: extract technique / level text / level note of §7 into harness/manifest_texts/Cxx.json"""
import json, re, sys
rep, prop = sys.argv[1], sys.argv[2]
s = open(rep).read()
m = re.search(r"^##\s*7[^\n]*\n(.*?)(?=^##\s|\Z)", s, re.S | re.M)
sec = m.group(1)
def grab(a, b):
    mm = re.search(a + r"\W*[:=]?\s*(.*?)(?=" + b + r"|\Z)", sec, re.S | re.I)
    t = mm.group(1) if mm else ""
    t = re.sub(r"[`*]", "", t); t = re.sub(r"\s+", " ", t).strip().strip('"').strip("-• ").strip()
    return t
tech = grab(r"technique", r"\n\W*level[ _]text")
text = grab(r"level[ _]text", r"\n\W*level[ _]note")
note = grab(r"level[ _]note", r"\n##|\Z")
assert tech and text and note, (bool(tech), bool(text), bool(note))
import os
_old = f"/verif/harness/manifest_texts/{prop}.json"
if os.path.exists(_old):
    _o = json.load(open(_old))
    if len(text) < 60 <= len(_o["text"]): text = _o["text"]
    if len(tech) < 60 <= len(_o["technique"]): tech = _o["technique"]
json.dump({"technique": tech, "text": text, "note": note, "ref": f"DESIGN.md §6 {prop}"}, open(f"/verif/harness/manifest_texts/{prop}.json", "w"), indent=1)
print(prop, len(tech), len(text), len(note))
