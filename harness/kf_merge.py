"""kf_merge.py <letter> <Cxx> [<Cxx>...]: append the builder's known_findings entries for the given properties"""
import json, sys
X, props = sys.argv[1], sys.argv[2:]
mine = json.load(open('/verif/known_findings.json'))
theirs = json.load(open(f'/tmp/b_{X}/verif/known_findings.json'))
ids = {e['id'] for e in mine['findings']}
for e in theirs['findings']:
    if e['property'] in props and e['id'] not in ids:
        mine['findings'].append(e); print('added', e['id'], e['status'])
json.dump(mine, open('/verif/known_findings.json', 'w'), indent=1)
