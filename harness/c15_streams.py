"""C15 — further streams: overridden torch functions, typed-field grid (`_set`/`_getattr`), tensorclasses inside
containers (nested in a tensordict, lazily stacked), serialisation round trips, and the probes of the
declared option combinations (shadow, subclass + shadow)."""
from __future__ import annotations

import os
import pickle
import shutil
import tempfile
import warnings
from typing import Any, Optional

import numpy as np
import torch
from tensordict import LazyStackedTensorDict, TensorClass, TensorDict, TensorDictBase, is_tensorclass, tensorclass
from tensordict.tensorclass import NonTensorData, NonTensorStack

import c15_behaviour as B
import c15_classes as Z
from common import BUILD, err_class, parse_sx, sx, time_limit

warnings.filterwarnings("ignore")


# --------------------------------------------------------------------------- torch functions
def _mask():
    return torch.tensor([[True, False, True], [False, True, False]])


TORCH_ARGS = {
    "cat": [("dim0", lambda a, b: (([a, b], 0), {})), ("dim1", lambda a, b: (([a, b],), {"dim": 1})),
            ("three", lambda a, b: (((a, b, a), 0), {}))],
    "stack": [("dim0", lambda a, b: (([a, b], 0), {})), ("dim2", lambda a, b: (([a, b], 2), {})),
              ("three", lambda a, b: (((a, b, a),), {"dim": 1}))],
    "clone": [("default", lambda a, b: ((a,), {}))],
    "empty_like": [("default", lambda a, b: ((a,), {}))],
    "zeros_like": [("default", lambda a, b: ((a,), {}))],
    "ones_like": [("default", lambda a, b: ((a,), {}))],
    "rand_like": [("default", lambda a, b: ((a,), {}))],
    "randn_like": [("default", lambda a, b: ((a,), {}))],
    "full_like": [("value", lambda a, b: ((a, 3.0), {}))],
    "flatten": [("01", lambda a, b: ((a, 0, 1), {})), ("default", lambda a, b: ((a,), {}))],
    "gather": [("dim1", lambda a, b: ((a, 1, torch.tensor([[0, 2], [1, 1]])), {})),
               ("kw-input", lambda a, b: ((), {"input": a, "dim": 1, "index": torch.tensor([[0, 2], [1, 1]])}))],
    "permute": [("10", lambda a, b: ((a, (1, 0)), {}))],
    "split": [("int", lambda a, b: ((a, 1, 0), {})), ("list", lambda a, b: ((a, [1, 2], 1), {}))],
    "squeeze": [("default", lambda a, b: ((a,), {})), ("dim", lambda a, b: ((a, 0), {}))],
    "unbind": [("0", lambda a, b: ((a, 0), {})), ("1", lambda a, b: ((a, 1), {}))],
    "unflatten": [("0", lambda a, b: ((a, 0, (1, 2)), {}))],
    "unsqueeze": [("0", lambda a, b: ((a, 0), {})), ("-1", lambda a, b: ((a, -1), {})), ("kw-input", lambda a, b: ((), {"input": a, "dim": 0}))],
    "masked_select": [("mask", lambda a, b: ((a, _mask()), {}))],
    "transpose": [("01", lambda a, b: ((a, 0, 1), {}))],
    "where": [("cond", lambda a, b: ((_mask(), a, b), {}))],
}
RANDOM = {"rand_like", "randn_like", "empty_like"}


def torch_functions(run, drv, classes):
    from tensordict._torch_func import TD_HANDLED_FUNCTIONS
    for clsname in classes:
        cls = Z.BEHAVIOUR_CLASSES[clsname]
        fields = sorted(cls.__expected_keys__)
        reqs, pend = [], []
        for func in sorted(TD_HANDLED_FUNCTIONS, key=lambda f: f.__name__):
            fname = func.__name__
            for label, build in TORCH_ARGS.get(fname, [("default", lambda a, b: ((a,), {}))]):
                tcA, tcO = Z.make(cls), Z.make(cls, seed=1)
                tcB, tcP = Z.make(cls), Z.make(cls, seed=1)
                aA, kA = build(tcA, tcO)
                aB, kB = build(tcB._tensordict, tcP._tensordict)
                case = [clsname, "torch." + fname, label]

                def call(args, kw):
                    try:
                        with time_limit(20), warnings.catch_warnings():
                            warnings.simplefilter("ignore")
                            return "ok", func(*args, **kw)
                    except TimeoutError:
                        raise
                    except Exception as e:  # noqa: BLE001
                        return "exc", e
                st_td, r_td = call(aB, kB)
                st_tc, r_tc = call(aA, kA)
                run.case(tuple(case), nontrivial=st_td == "ok")
                run.count("torch.td_outcome", st_td)
                if st_td != "ok":
                    continue
                # model: shape of the tensordict-side result -> what __torch_function__ returns
                tdB = tcB._tensordict
                if isinstance(r_td, (list, tuple)):
                    res = ["tuple"] + [B.td_item_desc(x, tdB, {}, i) for i, x in enumerate(r_td)]
                else:
                    res = B.td_item_desc(r_td, tdB, {}, 0)
                reqs.append(sx("c15.torchfn", fname, clsname, fields, ["td", "t_self", B._keys(tdB)], B.nt_desc(tcA), res))
                if st_tc == "exc":
                    actual = ["err", "notimplemented" if "__torch_function__" in str(r_tc) or "no implementation" in str(r_tc).lower() else err_class(r_tc)]
                elif isinstance(r_tc, (list, tuple)):
                    actual = ["ok", ["tuple"] + [B.tc_item_actual(y, tcA, i) for i, y in enumerate(r_tc)]]
                else:
                    actual = ["ok", B.tc_item_actual(r_tc, tcA, 0)]
                pend.append((case, actual))
                site = "torch:" + fname
                if st_tc == "exc":
                    run.oracle_fail(site, case, f"torch.{fname} works on the tensordict, raises {type(r_tc).__name__} on the tensorclass: {str(r_tc)[:140]}",
                                    fingerprint=f"torch.{fname}:{label}:raises:{err_class(r_tc)}")
                    continue
                why = B.same_result(fname, r_tc, r_td, tcA, tdB, set(fields), values=fname not in RANDOM)
                if why:
                    run.oracle_fail(site, case, why, fingerprint=f"torch.{fname}:{label}:{why[:60]}")
                else:
                    run.oracle_ok(site)
        for (case, actual), ans in zip(pend, drv.ask_many(reqs)):
            run.corr("torch_function", case, actual, parse_sx(ans))


def _uses(args, kw, obj):
    def walk(v):
        if v is obj:
            return True
        if isinstance(v, (list, tuple)):
            return any(walk(x) for x in v)
        return False
    return any(walk(v) for v in args) or any(walk(v) for v in kw.values())


def torch_mixed(run, classes):
    """MIXED operand lists: every overridden torch function that takes several collections (found by asking each
    argument builder whether it uses its second operand), with a tensorclass and a PLAIN TensorDict of the same
    entries among the operands, in both orders, three operands, and nested one level in a parent tensordict.
    Reference: the function on the underlying tensordicts.  Values must agree in every order; when the tensorclass
    comes FIRST the result (nested: the entry) must come back in the class with its fields readable.  When the plain
    tensordict comes first the first operand's type decides (a plain TensorDict comes back): counted, not judged."""
    from tensordict._torch_func import TD_HANDLED_FUNCTIONS
    for clsname in classes:
        cls = Z.BEHAVIOUR_CLASSES[clsname]
        fields = set(cls.__expected_keys__)
        for func in sorted(TD_HANDLED_FUNCTIONS, key=lambda f: f.__name__):
            fname = func.__name__
            for label, build in TORCH_ARGS.get(fname, []):
                a0, b0 = Z.make(cls), Z.make(cls, seed=1)
                pa, pk = build(a0, b0)
                if not _uses(pa, pk, b0):
                    continue
                site = "torch-mixed:" + fname

                def call(args, kw):
                    try:
                        with time_limit(20), warnings.catch_warnings():
                            warnings.simplefilter("ignore")
                            return "ok", func(*args, **kw)
                    except TimeoutError:
                        raise
                    except Exception as e:  # noqa: BLE001
                        return "exc", e

                def parent(v):
                    return TensorDict({"k": v, "w": torch.zeros(2, 3, 1)}, batch_size=[2, 3])
                for order in ("tc,td", "td,tc", "nested tc,td", "nested td,tc"):
                    tcA, tcO = Z.make(cls), Z.make(cls, seed=1)
                    rA, rO = Z.make(cls)._tensordict, Z.make(cls, seed=1)._tensordict
                    tc_first = order.endswith("tc,td")
                    x, y = (tcA, tcO._tensordict) if tc_first else (tcA._tensordict, tcO)
                    nested = order.startswith("nested")
                    if nested:
                        x, y, rA, rO = parent(x), parent(y), parent(rA), parent(rO)
                    st_ref, ref = call(*build(rA, rO))
                    st, res = call(*build(x, y))
                    case = [clsname, "torch." + fname, label, order]
                    run.case(tuple(case), nontrivial=st_ref == "ok")
                    if st_ref != "ok":
                        run.count("torch_mixed.reference_raises", fname)
                        continue
                    if st != "ok":
                        run.oracle_fail(site, case, f"torch.{fname} works on plain tensordicts, raises {type(res).__name__} on the mixed operands ({order}): {str(res)[:140]}",
                                        fingerprint=f"torch.{fname}:{label}:{order}:raises:{err_class(res)}")
                        continue
                    why = None
                    if nested:
                        got, want = res.get("k"), ref.get("k")
                        if B.canon(res.exclude("k")) != B.canon(ref.exclude("k")):
                            why = "the other entries of the parent differ"
                    else:
                        got, want = res, ref
                    if why is None and B.canon(B.unwrap(got)) != B.canon(want):
                        why = "values differ from the function on the underlying tensordicts"
                    if why is None and tc_first:
                        if type(got) is not cls:
                            why = f"tensorclass first: result of matching structure came back as {type(got).__name__}, not {cls.__name__}"
                        else:
                            bad = B.fields_readable(got)
                            if bad:
                                why = f"fields {bad} of the result do not read as the underlying entries"
                    if why is None and not tc_first:
                        run.count("torch_mixed.td_first_result_class", "tensorclass" if is_tensorclass(got) else type(got).__name__)
                    if why:
                        run.oracle_fail(site, case, why, fingerprint=f"torch.{fname}:{label}:{order}:{why[:60]}")
                    else:
                        run.oracle_ok(site)


# --------------------------------------------------------------------------- undeclared fields
def undeclared_writes(run):
    """typed fields: a key that is not a declared field is refused by every write spelling (`set`, tuple-key `set`, nested tuple key,
    attribute assignment), with values of every kind, and the instance is left as it was (model: `set_undeclared_rejects`)."""
    spellings = [("set", lambda t, v: t.set("zz", v)), ("set-inplace", lambda t, v: t.set("zz", v, inplace=True)),
                 ("set-tuple", lambda t, v: t.set(("zz",), v)), ("set-nested", lambda t, v: t.set(("n", "zz"), v)),
                 ("attr", lambda t, v: setattr(t, "zz", v))]
    values = [("tensor", lambda: torch.zeros(2, 3)), ("str", lambda: "v"), ("none", lambda: None), ("int", lambda: 3)]
    for clsname in ("D1", "S1", "Ac", "AcS", "Nc", "NcS", "D2"):
        cls = Z.BEHAVIOUR_CLASSES[clsname]
        for sname, f in spellings:
            for vname, mk in values:
                t = Z.make(cls)
                before = (B.canon(t._tensordict), dict(t._non_tensordict), sorted(k for k in t.__dict__))
                case = [clsname, sname, vname]
                run.case(tuple(case), nontrivial=True)
                try:
                    with time_limit(10), warnings.catch_warnings():
                        warnings.simplefilter("ignore")
                        f(t, mk())
                    err = None
                except TimeoutError:
                    raise
                except Exception as e:  # noqa: BLE001
                    err = e
                why = None
                if err is None:
                    why = "the write of an undeclared field was accepted"
                elif not isinstance(err, (AttributeError, KeyError)):
                    why = f"refused with {type(err).__name__} ({str(err)[:60]}), not with the AttributeError of the typed fields"
                after = (B.canon(t._tensordict), dict(t._non_tensordict), sorted(k for k in t.__dict__))
                if why is None and after != before:
                    why = "the refused write changed the instance"
                if why:
                    run.oracle_fail("undeclared-field", case, why, fingerprint=f"undeclared:{sname}:{vname}:{why[:40]}")
                else:
                    run.oracle_ok("undeclared-field")


# --------------------------------------------------------------------------- property setters
PROPERTY_VALUES = {
    "batch_size": [("shorter", [2]), ("same", [2, 3]), ("torch.Size", torch.Size([2])), ("too-long", [2, 3, 4, 5]), ("wrong", [5])],
    "shape": [("shorter", [2])],
    "batch_dims": [("1", 1)],
    # (duplicate names are not tried: a lazy stack accepts them and fails later - the dim-name property's subject)
    "names": [("both", ["a", "b"]), ("one", [None, "b"]), ("none", None), ("too-many", ["a", "b", "c"])],
    "is_locked": [("true", True), ("false", False)],
    "device": [("cpu", "cpu")],
}


def property_setters(run):
    """every public property of TensorDict that has a SETTER (found by reflection): assigning it on the tensorclass does what assigning it
    on the underlying tensordict does - same refusal or same resulting tensordict, the property reads the same on both, the fields still
    read as the entries.  Dense and lazily stacked receivers."""
    props = []
    for n in dir(TensorDict):
        if n.startswith("_"):
            continue
        v = next((k.__dict__[n] for k in TensorDict.__mro__ if n in k.__dict__), None)
        if isinstance(v, property) and v.fset is not None:
            props.append(n)
    for n in props:
        if n not in PROPERTY_VALUES:
            run.count("property_setters.no_candidate", n)
            run.notes.append(f"property with a setter and no candidate value (not exercised): {n}")
    for clsname in ("D1", "S1"):
        cls = Z.BEHAVIOUR_CLASSES[clsname]
        for recv in ("dense", "lazy"):
            for n in props:
                for label, value in PROPERTY_VALUES.get(n, []):
                    mk = Z.make_lazy if recv == "lazy" else Z.make
                    tc, td = mk(cls), mk(cls)._tensordict
                    case = [clsname, recv, n, label]

                    def assign(obj):
                        try:
                            with time_limit(10), warnings.catch_warnings():
                                warnings.simplefilter("ignore")
                                setattr(obj, n, value)
                            return None
                        except TimeoutError:
                            raise
                        except Exception as e:  # noqa: BLE001
                            return e
                    e_td, e_tc = assign(td), assign(tc)
                    run.case(tuple(case), nontrivial=e_td is None)
                    site = "property:" + n
                    if e_td is not None:
                        run.count("property_setters.td_refuses", f"{n}:{label}:{err_class(e_td)}")
                        if e_tc is None:
                            run.count("property_setters.tc_accepts_more", f"{n}:{label}")
                        continue
                    if e_tc is not None:
                        run.oracle_fail(site, case, f"assignment works on the tensordict, raises {type(e_tc).__name__} on the tensorclass: {str(e_tc)[:120]}",
                                        fingerprint=f"property:{n}:{label}:raises:{err_class(e_tc)}")
                        continue
                    why = None
                    try:
                        a, b = getattr(tc, n), getattr(td, n)
                        if (list(a) if isinstance(a, (list, tuple, torch.Size)) else a) != (list(b) if isinstance(b, (list, tuple, torch.Size)) else b):
                            why = f"afterwards the property reads {a!r} on the tensorclass, {b!r} on the tensordict"
                    except Exception as e:  # noqa: BLE001
                        why = f"reading the property back raises {type(e).__name__}: {str(e)[:80]}"
                    if why is None and B.canon(tc._tensordict) != B.canon(td):
                        why = "the underlying tensordict differs from the tensordict assigned directly"
                    if why is None and list(tc._tensordict.batch_size) != list(td.batch_size):
                        why = f"batch size {list(tc._tensordict.batch_size)} vs {list(td.batch_size)}"
                    if why is None and tc._tensordict._maybe_names() != td._maybe_names():
                        why = f"dim names {tc._tensordict._maybe_names()} vs {td._maybe_names()}"
                    if why is None and tc._tensordict.is_locked != td.is_locked:
                        why = f"lock state {tc._tensordict.is_locked} vs {td.is_locked}"
                    if why is None:
                        bad = B.fields_readable(tc)
                        if bad:
                            why = f"afterwards fields {bad} no longer read as the underlying entries"
                    if why:
                        run.oracle_fail(site, case, why, fingerprint=f"property:{n}:{label}:{why[:50]}")
                    else:
                        run.oracle_ok(site)


# --------------------------------------------------------------------------- typed fields
@tensorclass
class Tp:
    a: Any = None
    t: torch.Tensor = None
    c: Z.Nest = None
    i: int = None
    s: str = None


@tensorclass(autocast=True)
class TpA:
    a: Any = None
    t: torch.Tensor = None
    c: Z.Nest = None
    i: int = None
    s: str = None


@tensorclass(nocast=True)
class TpN:
    a: Any = None
    t: torch.Tensor = None
    c: Z.Nest = None
    i: int = None
    s: str = None


class TpS(TensorClass["autocast"]):
    a: Any = None
    t: torch.Tensor = None
    c: Z.Nest = None
    i: int = None
    s: str = None


HINTS = {"a": ("any", None), "t": ("accepted", torch.Tensor), "c": ("collection", Z.Nest), "i": ("othertype", int), "s": ("othertype", str)}


class _Obj:
    def __repr__(self):
        return "_Obj"


def _values():
    return [
        ("tensor", "tensor", lambda: torch.tensor(1.5)),
        ("int", "castable", lambda: 3),
        ("float", "castable", lambda: 2.5),
        ("ndarray", "castable", lambda: np.array([1.0, 2.0])),
        ("none", "none", lambda: None),
        ("dict", "dict", lambda: {"y": torch.tensor(4.0)}),
        ("str", "other", lambda: "7"),
        ("obj", "other", lambda: _Obj()),
        ("nest", "tensor", lambda: Z.Nest(y=torch.tensor(2.0), batch_size=[])),
    ]


def _expected_python(sym, v, target):
    if sym == "raw":
        return v
    if sym == "asTensor":
        return v if isinstance(v, torch.Tensor) or is_tensorclass(v) else torch.as_tensor(v)
    if sym == "castAccepted":
        if isinstance(v, target):
            return v
        if issubclass(target, torch.Tensor):
            return torch.as_tensor(v)
        return target(v)
    if sym == "fromDict":
        return target.from_dict(v, auto_batch_size=False)
    if sym == "castOther":
        return target(v)
    raise KeyError(sym)


def _entry_desc(td, k):
    e = td.get(k)
    if isinstance(e, NonTensorData):
        return ["nt", "v"]
    if isinstance(e, NonTensorStack):
        return ["stack", "v"]
    return ["leaf", "t"]


def typed_fields(run, drv):
    classes = [("Tp", Tp, False, False), ("TpA", TpA, True, False), ("TpN", TpN, False, True), ("TpS", TpS, True, False)]
    priors = [("none", lambda: None), ("tensor", lambda: torch.tensor(9.0)), ("nontensor", lambda: "prior")]
    reqs, pend = [], []
    for cname, cls, autocast, nocast in classes:
        fields = sorted(cls.__expected_keys__)
        for f, (hint, target) in HINTS.items():
            for vname, vkind, mk in _values():
                for pname, mkp in priors:
                    for locked in (False, True) if (vname, pname) == ("tensor", "none") else (False,):
                        v = mk()
                        # values an "accepted" hint cannot convert are out of the modelled domain (as_tensor raises ValueError/RuntimeError, not TypeError)
                        cast_ok = True
                        if autocast and hint in ("accepted", "collection") and vkind not in ("none", "dict"):
                            try:
                                _expected_python("castAccepted", v, target)
                            except TypeError:
                                cast_ok = False
                            except Exception:  # noqa: BLE001
                                run.count("typed.out_of_domain", f"{hint}:{vname}")
                                continue
                        other_ok = True
                        if autocast and hint == "othertype" and vkind not in ("none", "dict"):
                            try:
                                target(v)
                            except TypeError:
                                other_ok = False
                            except Exception:  # noqa: BLE001
                                run.count("typed.out_of_domain", f"{hint}:{vname}")
                                continue
                        tc = cls(batch_size=[])
                        try:
                            pv = mkp()
                            if pv is not None:
                                # the prior is written with the plain rule (tensor -> leaf, str -> NonTensorData)
                                tc._tensordict.set(f, pv if isinstance(pv, torch.Tensor) else NonTensorData(pv))
                                tc._non_tensordict.pop(f, None)
                        except Exception:  # noqa: BLE001
                            continue
                        if locked:
                            tc.lock_()
                        es = [[k, _entry_desc(tc._tensordict, k)] for k in tc._tensordict.keys()]
                        nt = [[k, None if x is None else "v"] for k, x in tc._non_tensordict.items()]
                        case = [cname, f, vname, pname, "locked" if locked else "unlocked"]
                        try:
                            with time_limit(10), warnings.catch_warnings():
                                warnings.simplefilter("ignore")
                                setattr(tc, f, v)
                            if f in tc._tensordict.keys():
                                e = tc._tensordict.get(f)
                                loc = "nt" if isinstance(e, (NonTensorData, NonTensorStack)) else "leaf"
                            elif f in tc._non_tensordict:
                                loc = "placeholder"
                            else:
                                loc = "nowhere"
                            impl = ["ok", loc, B.canon(getattr(tc, f))]
                        except TimeoutError:
                            raise
                        except Exception as e:  # noqa: BLE001
                            impl = ["err", err_class(e)]
                        run.case(tuple(case), nontrivial=True)
                        run.count("typed.outcome", impl[0] if impl[0] == "err" else impl[1])
                        reqs.append(sx("c15.setfield", fields, autocast, nocast, hint, locked, es, nt, f, None if vkind == "none" else vkind, cast_ok, other_ok))
                        pend.append((case, impl, v, target, f, tc))
    answers = drv.ask_many(reqs)
    for (case, impl, v, target, f, tc), ans, rq in zip(pend, answers, reqs):
        m = parse_sx(ans)
        if m == ["bad-op"]:
            from common import Infra
            raise Infra(f"driver rejected {rq}")
        if m[0] == "err":
            model = ["err", {"lock": "lock", "attr": "other", "type": "type"}.get(m[1], m[1])]
            if impl[0] == "err" and impl[1] == "runtime" and m[1] == "lock":
                impl = ["err", "lock"]
        else:
            state, read = m[1], m[2]
            tdm = {k: e for k, e in state[0][1:]}
            loc = "placeholder"
            if f in tdm:
                loc = "nt" if tdm[f][0] in ("nt", "stack") else "leaf"
            sym = read[1]
            try:
                exp = None if sym == "none" else _expected_python(sym, v, target)
                model = ["ok", loc, B.canon(exp)]
            except Exception as e:  # noqa: BLE001
                model = ["ok", loc, f"cannot-build-expected:{type(e).__name__}"]
        run.corr("typed_fields(_set/_getattr)", case, impl, model)
        # oracle: attribute access is key access, and the instance stays well formed
        if impl[0] == "ok":
            bad = B.fields_readable(tc)
            both = [k for k in tc._tensordict.keys() if tc._non_tensordict.get(k, 0) is not None and k in tc._non_tensordict]
            if bad or both:
                run.oracle_fail("typed-field", case, f"after tc.{f} = <{case[2]}>: fields {bad} do not read as the underlying entry; in both dicts: {both}",
                                fingerprint=f"typed:{case[0]}:{f}:{case[2]}")
            else:
                run.oracle_ok("typed-field")
    run.sample({"stream": "typed_fields", "case": pend[0][0] if pend else None})
    # _getattr on arbitrary (also ill-formed: stale placeholder / value in both dicts) instance states
    fields = sorted(Tp.__expected_keys__)
    n_states = 150 if run.tier == "quick" else 1500
    reqs, pend = [], []
    for _ in range(n_states):
        tc = Tp(batch_size=[])
        tc._non_tensordict.clear()
        es, nt = [], []
        for f in fields:
            r = run.rng.random()
            if r < 0.3:
                tc._tensordict.set(f, torch.tensor(float(len(f))))
                es.append([f, ["leaf", "t_" + f]])
            elif r < 0.5:
                tc._tensordict.set(f, NonTensorData("p_" + f))
                es.append([f, ["nt", "p_" + f]])
            r = run.rng.random()
            if r < 0.3:
                tc._non_tensordict[f] = None
                nt.append([f, None])
            elif r < 0.4:
                tc._non_tensordict[f] = "q_" + f
                nt.append([f, "q_" + f])
        for f in fields:
            try:
                got = getattr(tc, f)
                impl = ["tensor", "t_" + f] if isinstance(got, torch.Tensor) else ["obj", "none" if got is None else got]
            except Exception as e:  # noqa: BLE001
                impl = ["err", "key" if isinstance(e, (KeyError, AttributeError)) else err_class(e)]
            run.case(("getattr", tuple(map(str, es)), tuple(map(str, nt)), f), nontrivial=bool(es or nt))
            reqs.append(sx("c15.getfield", es, nt, f))
            pend.append(([es, nt, f], impl))
    for (case, impl), ans in zip(pend, drv.ask_many(reqs)):
        run.corr("getattr(_getattr field branch)", case, impl, parse_sx(ans)[0])
    # getattr == getitem(to_tensordict) on the zoo
    reqs, pend = [], []
    for cname, cls in Z.BEHAVIOUR_CLASSES.items():
        tc = Z.make(cls)
        td_plain = tc.to_tensordict(retain_none=True)
        for f in sorted(cls.__expected_keys__):
            if f in tc.__dict__:
                # frozen classes: a defaulted field that was never set lives in the instance dict (dataclass __init__)
                run.count("attr_is_key.instance_dict_field", cname)
                continue
            try:
                a = B._erase_classes(B.canon(getattr(tc, f)))
            except Exception as e:  # noqa: BLE001
                a = ["raises", err_class(e)]
            try:
                # to_tensordict() turns nested tensorclasses into plain tensordicts: compare with classes erased
                b = B._erase_classes(B.canon(td_plain[f]))
            except Exception as e:  # noqa: BLE001
                b = ["raises", err_class(e)]
            run.case(("attr_is_key", cname, f))
            if a == b:
                run.oracle_ok("attr-is-key")
            else:
                run.oracle_fail("attr-is-key", [cname, f], f"tc.{f} != tc.to_tensordict()[{f!r}]", fingerprint=f"attr:{cname}:{f}")


# --------------------------------------------------------------------------- containers, stacking, serialisation
def containers(run):
    scratch = tempfile.mkdtemp(prefix="c15c_", dir=str(BUILD))
    try:
        for cname, cls in Z.BEHAVIOUR_CLASSES.items():
            def fresh(seed=0):
                return Z.make(cls, seed=seed)

            def check(site, case, got, want_cls, want_canon, what):
                run.case((site, cname) + tuple(map(str, case)))
                if want_cls is not None and type(got) is not want_cls:
                    run.oracle_fail(site, [cname] + case, f"{what}: came back as {type(got).__name__}, not {want_cls.__name__}", fingerprint=f"{site}:{case[0]}:class")
                elif B.field_view(got) != want_canon:
                    run.oracle_fail(site, [cname] + case, f"{what}: content differs", fingerprint=f"{site}:{case[0]}:content")
                else:
                    bad = B.fields_readable(got) if is_tensorclass(got) else []
                    if bad:
                        run.oracle_fail(site, [cname] + case, f"{what}: fields {bad} unreadable", fingerprint=f"{site}:{case[0]}:fields")
                    else:
                        run.oracle_ok(site)

            ops = [
                ("index0", lambda t: t[0]), ("slice", lambda t: t[:, 1:]), ("reshape", lambda t: t.reshape(6)), ("reshape-nd", lambda t: t.reshape(3, 2)),
                ("unsqueeze", lambda t: t.unsqueeze(0)), ("permute", lambda t: t.permute(1, 0)), ("clone", lambda t: t.clone()),
                ("expand", lambda t: t.expand(2, 2, 3)), ("flatten", lambda t: t.flatten(0, 1)), ("mask", lambda t: t[torch.tensor([True, False])]),
            ]
            # (a) nested in a tensordict: an op on the parent acts on the member as the op on the member alone
            for oname, op in ops:
                tc = fresh()
                parent = TensorDict({"a": tc, "b": torch.zeros(2, 3)}, batch_size=[2, 3])
                try:
                    got = op(parent).get("a")
                    want = op(fresh())
                except Exception as e:  # noqa: BLE001
                    run.count("containers.raises", f"nested:{oname}:{type(e).__name__}")
                    continue
                check("nested-in-td", [oname], got, cls, B.field_view(want), f"parent.{oname}()['a']")
            # (b) stacked: dense stack, lazy stack
            t1, t2 = fresh(0), fresh(1)
            for dim in (0, 1, 2):
                st = torch.stack([t1, t2], dim)
                st_td = torch.stack([fresh(0)._tensordict, fresh(1)._tensordict], dim)
                check("stack", [f"dense{dim}"], st, cls, B.field_view(cls._from_tensordict(st_td, {k: None for k in t1._non_tensordict})), f"torch.stack dim {dim}")
                for i in range(2):
                    got = st.unbind(dim)[i]
                    check("stack", [f"dense{dim}.unbind{i}"], got, cls, B.field_view(fresh(i)), f"member {i} of the dense stack")
            # (b') members whose non-tensor fields DIFFER: every position of the stack reads the payload of the member it
            # comes from (expected built with numpy, not with the library)
            da, db = Z.make(cls, seed=0, strings="A"), Z.make(cls, seed=1, strings="B")
            for dim in ((0, 1, 2) if "s" in cls.__expected_keys__ else ()):
                for how in ("torch.stack", "method"):
                    site, case = "stack-differing", [f"{how}{dim}"]
                    run.case((site, cname, how, dim))
                    try:
                        st = torch.stack([da, db], dim) if how == "torch.stack" else da.stack([da, db], dim)
                    except Exception as e:  # noqa: BLE001
                        if how == "method":
                            run.count("containers.raises", f"stack-method:{type(e).__name__}")    # finding C15-classmethod-on-class territory
                            continue
                        run.oracle_fail(site, [cname] + case, f"raises {type(e).__name__}: {str(e)[:100]}", fingerprint=f"{site}:raises")
                        continue
                    why = None
                    want_s = np.stack([np.full((2, 3), "hiA", dtype=object), np.full((2, 3), "hiB", dtype=object)], dim).tolist()
                    want_t = np.stack([np.full((2, 3), "nestedA", dtype=object), np.full((2, 3), "nestedB", dtype=object)], dim).tolist()
                    if type(st) is not cls:
                        why = f"came back as {type(st).__name__}"
                    elif list(st.batch_size) != list(np.stack([np.empty((2, 3))] * 2, dim).shape):
                        why = f"batch size {list(st.batch_size)}"
                    elif st.s != want_s:
                        why = f"field s reads {st.s}, expected {want_s}"
                    elif st.n.t != want_t:
                        why = f"nested field n.t reads {st.n.t}, expected {want_t}"
                    else:
                        ent = st._tensordict.get("s")
                        if list(ent.batch_size) != list(st.batch_size):
                            why = f"entry s has batch size {list(ent.batch_size)}, the tensorclass {list(st.batch_size)}"
                    if why is None:
                        for i, (src, tag) in enumerate(((da, "A"), (db, "B"))):
                            piece = st.unbind(dim)[i]
                            if B.field_view(piece) != B.field_view(src):
                                why = f"unbind({dim})[{i}] is not member {i}"
                                break
                            idx = (slice(None),) * dim + (i,)
                            if B.field_view(st[idx]) != B.field_view(src):
                                why = f"indexing position {i} of the stack dim does not give member {i}"
                                break
                            el = (0,) * dim + (i,) + (0,) * (2 - dim)
                            if st[el].s != "hi" + tag or st[el].n.t != "nested" + tag:
                                why = f"element {el} reads s={st[el].s!r}"
                                break
                    if why is None:
                        bad = B.fields_readable(st)
                        if bad:
                            why = f"fields {bad} unreadable"
                    if why is None:
                        # a reshape that is neither a flatten nor an unflatten keeps every payload in row-major order
                        new = list(reversed(st.batch_size))
                        try:
                            rs = st.reshape(*new)
                            if rs.s != np.array(want_s, dtype=object).reshape(new).tolist():
                                why = f"reshape{tuple(new)}: field s reads {rs.s}"
                        except Exception as e:  # noqa: BLE001
                            why = f"reshape{tuple(new)} raises {type(e).__name__}: {str(e)[:80]}"
                    if why:
                        run.oracle_fail(site, [cname] + case, why, fingerprint=f"{site}:{how}{dim}:{why[:40]}")
                    else:
                        run.oracle_ok(site)
            for dim in (0, 1):
                lz = LazyStackedTensorDict.lazy_stack([fresh(0), fresh(1)], dim)
                run.count("containers.lazy_stack_type", type(lz).__name__)
                for i in range(2):
                    idx = (slice(None),) * dim + (i,)
                    try:
                        got = lz[idx]
                    except Exception as e:  # noqa: BLE001
                        run.oracle_fail("lazy-stack", [cname, f"lazy{dim}[{i}]"], f"indexing the lazy stack raises {type(e).__name__}: {str(e)[:100]}", fingerprint=f"lazy:{dim}:raises")
                        continue
                    check("lazy-stack", [f"lazy{dim}[{i}]"], got, cls, B.field_view(fresh(i)), f"member {i} of the lazy stack")
                try:
                    dense = lz.contiguous()
                    # reference: the same densification on the underlying tensordicts (whatever it does to the leaves)
                    want_td = LazyStackedTensorDict.lazy_stack([fresh(0)._tensordict, fresh(1)._tensordict], dim).contiguous()
                    want = cls._from_tensordict(want_td, {k: None for k in fresh(0)._non_tensordict})
                    check("lazy-stack", [f"lazy{dim}.contiguous"], dense, cls, B.field_view(want), "densified lazy stack")
                except Exception as e:  # noqa: BLE001
                    run.count("containers.raises", f"lazy-contiguous:{type(e).__name__}")
            # (c) indexed assignment keeps non-tensor fields and writes where the tensordict writes
            for iname, idx in [("int", 0), ("slice", slice(0, 1)), ("tuple", (1, slice(0, 2))), ("mask", torch.tensor([False, True]))]:
                a, b = fresh(0), fresh(0)
                src, src2 = fresh(1), fresh(1)
                if a.is_locked:
                    continue
                a[idx] = src[idx]
                b._tensordict[idx] = src2._tensordict[idx]
                check("setitem", [iname], a, cls, B.field_view(b), f"tc[{iname}] = other[{iname}]")
            # (d) serialisation round trips
            tc = fresh()
            try:
                got = pickle.loads(pickle.dumps(tc))
                check("pickle", ["roundtrip"], got, cls, B.field_view(tc), "pickle round trip")
            except Exception as e:  # noqa: BLE001
                run.oracle_fail("pickle", [cname], f"pickle round trip raises {type(e).__name__}: {str(e)[:100]}", fingerprint="pickle:raises")
            d = os.path.join(scratch, cname + "_mm")
            try:
                tc = fresh()
                tc.memmap(d)
                got = cls.load_memmap(d)
                ref = fresh()
                run.case(("memmap", cname))
                if type(got) is not cls:
                    run.oracle_fail("memmap", [cname], f"load_memmap gives {type(got).__name__}", fingerprint="memmap:class")
                elif _no_device(B.field_view(got)) != _no_device(B.field_view(ref)):
                    run.oracle_fail("memmap", [cname], "memmap round trip changes the content", fingerprint="memmap:content")
                else:
                    run.oracle_ok("memmap")
            except Exception as e:  # noqa: BLE001
                run.oracle_fail("memmap", [cname], f"memmap round trip raises {type(e).__name__}: {str(e)[:120]}", fingerprint=f"memmap:raises:{err_class(e)}")
            try:
                src, dst = fresh(1), fresh(0)
                if not dst.is_locked:
                    dst.load_state_dict(src.state_dict())
                    check("state-dict", ["roundtrip"], dst, cls, B.field_view(src), "state_dict -> load_state_dict")
            except Exception as e:  # noqa: BLE001
                run.oracle_fail("state-dict", [cname], f"raises {type(e).__name__}: {str(e)[:100]}", fingerprint="state-dict:raises")
    finally:
        shutil.rmtree(scratch, ignore_errors=True)


def _no_device(c):
    """a loaded memory map lives on cpu (device 'cpu' instead of None): erase the device slot of every TD canon"""
    if isinstance(c, dict):
        return {k: _no_device(v) for k, v in c.items()}
    if isinstance(c, list):
        if c and c[0] == "TD" and len(c) == 6:
            return ["TD", c[1], None, c[3], None, _no_device(c[5])]
        return [_no_device(x) for x in c]
    return c


# --------------------------------------------------------------------------- declared option combinations
def option_probes(run, kinds):
    # shadow=True with fields named like API members: model says which are readable
    vals = {k: "v_" + k for k in Z.SHADOW_FIELDS}
    inst = Z.ShF(**vals, batch_size=[])
    for f in Z.SHADOW_FIELDS:
        got = getattr(inst, f)
        visible = got == vals[f]
        model_visible = kinds.get(("ShF", f)) == "explicit"
        run.case(("shadow", f))
        run.corr("shadow.field_visible", ["ShF", f], visible, model_visible)
        if visible and inst._tensordict.get(f).data == vals[f]:
            run.oracle_ok("shadow-field")
        else:
            run.oracle_fail("shadow-field", ["ShF", f, Z.SHADOW_FIELDS[f]], f"field {f!r} of a shadow=True tensorclass reads as {type(got).__name__}, not as the stored value",
                            fingerprint=f"shadow-hidden:{f}")
    # declaring shadow through subclassing
    for spelling in ("keyword", "bracket"):
        run.case(("subclass-shadow", spelling))
        try:
            if spelling == "keyword":
                class _X(TensorClass, shadow=True):  # noqa: N801
                    batch_dims: torch.Tensor
            else:
                class _Y(TensorClass["shadow"]):  # noqa: N801
                    batch_dims: torch.Tensor
            run.oracle_ok("subclass-shadow")
        except Exception as e:  # noqa: BLE001
            run.oracle_fail("subclass-shadow", [spelling], f"declaring a shadow tensorclass by subclassing raises {type(e).__name__}: {str(e)[:120]}",
                            fingerprint=f"subclass-shadow:{spelling}")


# --------------------------------------------------------------------------- tensorclass __getitem__ / __setitem__ (non-tensor dict bookkeeping)
def items_stream(run, drv):
    """`tc[item]` and `tc[item] = value` for every kind of value `_setitem` distinguishes; compared with the model:
    error class, class of the result, key set of `_tensordict`, `_non_tensordict`"""
    @tensorclass
    class Other:          # another class with the same members as D1
        x: torch.Tensor
        n: Z.Nest
        s: str
        o: Optional[torch.Tensor] = None
        d: str = "dflt"

    @tensorclass
    class Foreign:        # another class with different members
        x: torch.Tensor
        q: str = "q"

    def with_o(cls):
        v = Z.make(cls)
        v.o = torch.ones(2, 3)
        return v
    values = [
        ("same-class", lambda: Z.make(Z.D1, seed=1)), ("same-class+o", lambda: with_o(Z.D1)),
        ("other-class-same-members", lambda: Other(x=torch.zeros(2, 3, 4), n=Z.Nest(y=torch.zeros(2, 3), batch_size=[2, 3]), s="hi0", batch_size=[2, 3])),
        ("foreign-class", lambda: Foreign(x=torch.zeros(2, 3, 4), batch_size=[2, 3])),
        ("bare-td", lambda: Z.make(Z.D1, seed=1)._tensordict), ("scalar", lambda: 0.0), ("tensor", lambda: torch.zeros(())),
        ("other:str", lambda: "nope"), ("other:list", lambda: [1, 2]),
    ]
    items = [("batch", 0), ("batch", slice(0, 1)), ("batch", (0, slice(None))), ("batch", torch.tensor([True, False])), ("key", "x"), ("key", ("n", "y"))]
    reqs, pend = [], []
    for cname in ("D1", "S1", "Nc", "Sh"):
        cls = Z.BEHAVIOUR_CLASSES[cname]
        fields = sorted(cls.__expected_keys__)
        for ikind, item in items:
            # reads
            tc = Z.make(cls)
            try:
                r = tc[item]
                impl = ["ok", type(r).__name__, B.nt_sorted_desc(r)]
            except Exception as e:  # noqa: BLE001
                impl = ["err", err_class(e)]
            run.case(("getitem", cname, repr(item)))
            reqs.append(sx("c15.getitem", ikind, cname, fields, ["td", "t0", B._keys(tc._tensordict)], B.nt_desc(tc)))
            pend.append((["getitem", cname, repr(item)], impl, None))
            for vname, mk in values:
                tc = Z.make(cls)
                v = mk()
                if is_tensorclass(v) and ikind == "batch":
                    v = v[item]
                elif isinstance(v, TensorDictBase) and ikind == "batch":
                    v = v[item]
                if is_tensorclass(v):
                    vd = ["tc", type(v).__name__ if type(v) is not cls else cname, ["td", "tv", B._keys(v._tensordict)], B.nt_desc(v)]
                elif isinstance(v, TensorDictBase):
                    vd = ["tdv", ["td", "tv", B._keys(v)]]
                elif vname in ("scalar", "tensor"):
                    vd = "scalar"
                else:
                    vd = "other"
                before = B.nt_desc(tc)
                before_keys = B._keys(tc._tensordict)
                try:
                    with warnings.catch_warnings():
                        warnings.simplefilter("ignore")
                        tc[item] = v
                    impl = ["ok", cname, sorted(B._keys(tc._tensordict)), B.nt_sorted_desc(tc)]
                except Exception as e:  # noqa: BLE001
                    impl = ["err", err_class(e)]
                run.case(("setitem", cname, repr(item), vname))
                run.count("items.value", vname)
                reqs.append(sx("c15.setitem", ikind, cname, ["td", "t0", before_keys], before, vd))
                pend.append((["setitem", cname, repr(item), vname], impl, tc))
    for (case, impl, tc), ans in zip(pend, drv.ask_many(reqs)):
        m = parse_sx(ans)
        if m[0] == "err":
            model = ["err", m[1]]
        elif case[0] == "getitem":
            model = ["ok", m[1], m[2]]
        else:
            model = ["ok", m[1], m[2], m[3]]
        run.corr("tensorclass.__getitem__/__setitem__", case, impl, model)
        if tc is not None and impl[0] == "ok":
            bad = B.fields_readable(tc)
            if bad:
                run.oracle_fail("setitem-fields", case, f"after the indexed assignment fields {bad} do not read as the underlying entries", fingerprint=f"setitem:{case[3]}")
            else:
                run.oracle_ok("setitem-fields")


def options_stream(run, drv):
    """every combination of the class options through the three spellings (decorator, class keywords, `TensorClass[...]`),
    with and without a field named like a tensordict attribute: resolved `_autocast / _frozen / _nocast / _shadow` or the error
    class, against the model (`createDecorated`, `metaOpts`)."""
    import itertools
    reqs, pend = [], []

    def flags(c):
        return ["ok"] + [str(bool(getattr(c, a))).lower() for a in ("_autocast", "_frozen", "_nocast", "_shadow")]

    def attempt(build):
        try:
            with warnings.catch_warnings():
                warnings.simplefilter("ignore")
                return flags(build())
        except Exception as e:  # noqa: BLE001
            return ["err", {"other": "attr"}.get(err_class(e), err_class(e))]
    # decorator
    for a, f, n, sh in itertools.product((False, True), repeat=4):
        for fname in ("x", "keys", "data", "batch_dims"):
            def build(a=a, f=f, n=n, sh=sh, fname=fname):
                body = {"__annotations__": {fname: torch.Tensor, "q": str}, "__module__": __name__}
                return tensorclass(type("_Opt", (), body), autocast=a, frozen=f, nocast=n, shadow=sh)
            case = ["decorator", a, f, n, sh, fname]
            run.case(("options",) + tuple(map(str, case)))
            reqs.append(sx("c15.options", "decorator", a, f, n, sh, [fname, "q"]))
            pend.append((case, attempt(build)))
    # class keywords on TensorClass and on bases that carry options
    bases = [("TensorClass", TensorClass, None), ("TensorClass[autocast]", TensorClass["autocast"], (True, False, False, False)),
             ("TensorClass[nocast]", TensorClass["nocast"], (False, False, True, False)), ("TensorClass[frozen]", TensorClass["frozen"], (False, True, False, False)),
             ("TensorClass[autocast,frozen]", TensorClass["autocast", "frozen"], (True, True, False, False))]
    for bname, base, bflags in bases:
        for ka, kn, kf in itertools.product((None, False, True), repeat=3):
            for ks in (False, True):
                def build(base=base, ka=ka, kn=kn, kf=kf, ks=ks):
                    kw = {k: v for k, v in (("autocast", ka), ("nocast", kn), ("frozen", kf)) if v is not None}
                    if ks:
                        kw["shadow"] = True
                    return type(base)("_OptS", (base,), {"__annotations__": {"x": torch.Tensor}, "__module__": __name__}, **kw)
                case = ["keywords", bname, ka, kn, kf, ks]
                run.case(("options",) + tuple(map(str, case)))
                reqs.append(sx("c15.options", "meta", ka, kn, kf, ks, list(bflags) if bflags else None))
                pend.append((case, attempt(build)))
    # brackets
    for items in [("autocast",), ("nocast",), ("frozen",), ("autocast", "frozen"), ("autocast", "nocast"), ("shadow",), ("nocast", "frozen")]:
        def build(items=items):
            b = TensorClass[items] if len(items) > 1 else TensorClass[items[0]]

            class _OptB(b):
                x: torch.Tensor
            return _OptB
        case = ["bracket"] + list(items)
        run.case(("options",) + tuple(case))
        # the bracket class itself is built with the items as keywords (base TensorClass), the subclass inherits
        reqs.append(sx("c15.options", "meta", True if "autocast" in items else None, True if "nocast" in items else None,
                       True if "frozen" in items else None, "shadow" in items, None))
        pend.append((case, attempt(build)))
    for (case, impl), ans in zip(pend, drv.ask_many(reqs)):
        m = parse_sx(ans)
        model = ["ok"] + [str(x).lower() for x in m[1:]] if m[0] == "ok" else ["err", m[1]]
        run.corr("class options (decorator / keywords / brackets)", [str(c) for c in case], impl, model)


def pytree_stream(run, drv):
    """`torch.utils._pytree` on tensorclass instances: flatten context (keys, placeholders), unflatten, `tree_map`: class, key set,
    entry kinds and placeholders of the rebuilt instance against the model (`pytreeFlatten` / `pytreeUnflatten`); oracle: the
    round trip reads like the original, `tree_map` acts on the instance as on its tensordict."""
    from torch.utils import _pytree as PT
    reqs, pend = [], []
    for cname in ("D1", "S1", "Ac", "Nc", "D2", "T1"):
        cls = Z.BEHAVIOUR_CLASSES[cname]
        fields = sorted(cls.__expected_keys__)
        for variant in ("plain", "o-set", "lazy", "locked"):
            if variant == "lazy":
                tc = Z.make_lazy(cls)
            else:
                tc = Z.make(cls)
                if variant == "o-set" and "o" in fields:
                    tc.o = torch.ones(2, 3)
                if variant == "locked":
                    tc.lock_()
            case = [cname, variant]
            run.case(("pytree",) + tuple(case))
            try:
                with time_limit(20), warnings.catch_warnings():
                    warnings.simplefilter("ignore")
                    leaves, spec = PT.tree_flatten(tc)
                    back = PT.tree_unflatten(leaves, spec)
                    mapped = PT.tree_map(lambda x: x + 1 if isinstance(x, torch.Tensor) else x, tc)
                    mapped_td = PT.tree_map(lambda x: x + 1 if isinstance(x, torch.Tensor) else x, tc._tensordict)
            except TimeoutError:
                raise
            except Exception as e:  # noqa: BLE001
                run.oracle_fail("pytree", case, f"raises {type(e).__name__}: {str(e)[:120]}", fingerprint=f"pytree:{variant}:raises:{err_class(e)}")
                continue
            why = None
            if type(back) is not cls:
                why = f"tree_unflatten(tree_flatten(tc)) is a {type(back).__name__}"
            elif B.field_view(back) != B.field_view(tc):
                why = "the round trip does not read like the original"
            elif type(mapped) is not cls:
                why = f"tree_map gives a {type(mapped).__name__}"
            elif B.canon(mapped._tensordict) != B.canon(mapped_td):
                why = "tree_map on the tensorclass differs from tree_map on its tensordict"
            else:
                bad = B.fields_readable(back) + B.fields_readable(mapped)
                if bad:
                    why = f"read paths disagree: {bad}"
            if why:
                run.oracle_fail("pytree", case, why, fingerprint=f"pytree:{variant}:{why[:40]}")
            else:
                run.oracle_ok("pytree")
            if variant == "lazy":
                continue              # (a lazy stack flattens through its own node type: not the modelled path)
            es = [[k, _entry_desc(tc._tensordict, k)] for k in tc._tensordict.keys()]
            nt = [[k, None if x is None else "v"] for k, x in tc._non_tensordict.items()]
            reqs.append(sx("c15.pytree", fields, es, nt, len(es)))
            impl = ["ok", sorted(back._tensordict.keys()), sorted([k, _entry_desc(back._tensordict, k)[0]] for k in back._tensordict.keys()),
                    B.nt_sorted_desc(back)]
            pend.append((case, impl))
    for (case, impl), ans in zip(pend, drv.ask_many(reqs)):
        m = parse_sx(ans)
        if m[0] == "err":
            model = ["err", m[1]]
        else:
            state = m[2]
            model = ["ok", sorted(m[1][1]), sorted([k, e[0]] for k, e in state[0][1:]), sorted([[k, "none" if x == "none" else "v"] for k, x in state[1][1]])]
        run.corr("pytree(flatten/unflatten)", case, impl, model)


def zero_d_setitem(run):
    """indexed assignment on a tensorclass WITHOUT batch dims (`tc[None] = v`, `tc[True] = v`, `tc[...] = v`, `tc[()] = v`):
    as the same assignment on the plain tensordict (the `None` / `True` shortcut of `_setitem`)"""
    for cname in ("D1", "S1", "Nc", "T1"):
        cls = Z.BEHAVIOUR_CLASSES[cname]
        for iname, item in [("None", None), ("True", True), ("(None,)", (None,)), ("...", Ellipsis), ("()", ()), ("mask0d", torch.tensor(True))]:
            for vname, mkv in [("int", lambda: -1), ("float", lambda: 0.5), ("tensor0d", lambda: torch.tensor(2.0)),
                               ("same-class[1]", lambda: Z.make(cls, batch=(1,), seed=1)), ("same-class[]", lambda: Z.make(cls, batch=(), seed=1))]:
                tc, ref = Z.make(cls, batch=()), Z.make(cls, batch=())._tensordict
                v = mkv()
                case = [cname, iname, vname]
                run.case(("zero-d-setitem",) + tuple(case))

                def call(o, val):
                    try:
                        with time_limit(10), warnings.catch_warnings():
                            warnings.simplefilter("ignore")
                            o[item] = val
                        return "ok", None
                    except TimeoutError:
                        raise
                    except Exception as e:  # noqa: BLE001
                        return "err", e
                st_td, e_td = call(ref, v._tensordict if is_tensorclass(v) else v)
                st_tc, e_tc = call(tc, v)
                if st_td != "ok":
                    run.count("zero_d_setitem.td_raises", f"{iname}:{vname}:{err_class(e_td)}")
                    if st_tc == "ok":
                        run.count("zero_d_setitem.tc_accepts_more", f"{iname}:{vname}")
                    continue
                if st_tc != "ok":
                    run.oracle_fail("zero-d-setitem", case, f"the tensordict performs tc[{iname}] = <{vname}>, the tensorclass raises {type(e_tc).__name__}: {str(e_tc)[:80]}",
                                    fingerprint=f"zero-d-setitem:{iname}:{vname}:raises:{err_class(e_tc)}")
                elif B.canon(tc._tensordict) != B.canon(ref):
                    run.oracle_fail("zero-d-setitem", case, "the underlying tensordict differs from the plain tensordict after the same assignment", fingerprint=f"zero-d-setitem:{iname}:{vname}:content")
                else:
                    bad = B.fields_readable(tc)
                    if bad:
                        run.oracle_fail("zero-d-setitem", case, f"read paths disagree: {bad}", fingerprint=f"zero-d-setitem:{iname}:{vname}:fields")
                    else:
                        run.oracle_ok("zero-d-setitem")


# --------------------------------------------------------------------------- update / tuple pieces
def update_stream(run, drv):
    """`tc.update(src)` / `update_` for every kind of source (tensorclass / dict / tensordict; mentioning the optional
    field or leaving it None / unmentioned) x destination state (optional field set / None).  Reference: the same update
    on the underlying tensordict.  Afterwards EVERY read path of the destination (attribute, to_dict, to_tensordict,
    items) must agree, on the same object."""
    corr_reqs, corr_pend = [], []
    for cname in ("D1", "S1", "Ac", "Nc", "Sh", "D2"):
        cls = Z.BEHAVIOUR_CLASSES[cname]

        def dest(o_set):
            t = Z.make(cls, seed=0, strings="D")
            if o_set:
                t.o = torch.ones(2, 3)
            return t

        def src_tc(o_set):
            t = Z.make(cls, seed=1, strings="S")
            if o_set:
                t.o = torch.full((2, 3), 2.0)
            return t

        def entries(t, tag):
            return [[k, [_entry_desc(t._tensordict, k)[0], tag + "_" + k]] for k in t._tensordict.keys()]
        sources = [
            ("tc-o-none", lambda: src_tc(False), lambda v: v._tensordict),
            ("tc-o-set", lambda: src_tc(True), lambda v: v._tensordict),
            ("dict-partial", lambda: {"x": torch.full((2, 3, 4), 5.0)}, lambda v: v),
            ("dict-with-o", lambda: {"x": torch.full((2, 3, 4), 5.0), "o": torch.full((2, 3), 2.0)}, lambda v: v),
            ("td-partial", lambda: TensorDict({"x": torch.full((2, 3, 4), 5.0)}, batch_size=[2, 3]), lambda v: v),
            ("td-with-o", lambda: TensorDict({"o": torch.full((2, 3), 2.0)}, batch_size=[2, 3]), lambda v: v),
        ]
        for method in ("update", "update_"):
            for o_dest in (False, True):
                for sname, mk, to_td_arg in sources:
                    d, ref = dest(o_dest), dest(o_dest)._tensordict
                    site, case = "update", [cname, method, sname, "dest-o-set" if o_dest else "dest-o-none"]
                    run.case(tuple(case))
                    try:
                        with warnings.catch_warnings():
                            warnings.simplefilter("ignore")
                            getattr(ref, method)(to_td_arg(mk()))
                    except Exception as e:  # noqa: BLE001
                        run.count("update.td_raises", f"{method}:{sname}:{err_class(e)}")
                        continue
                    try:
                        with warnings.catch_warnings():
                            warnings.simplefilter("ignore")
                            out = getattr(d, method)(mk())
                    except Exception as e:  # noqa: BLE001
                        run.oracle_fail(site, case, f"tensordict accepts, tensorclass raises {type(e).__name__}: {str(e)[:100]}", fingerprint=f"update:{method}:{sname}:raises")
                        continue
                    # correspondence with the model of `_update` (tensorclass / dict sources; `update` only: `update_` writes existing
                    # entries in place and is not modelled): which side every entry comes from, and the placeholders left
                    if method == "update" and sname.startswith(("tc", "dict")):
                        s_obj = mk()
                        s_tc = s_obj if is_tensorclass(s_obj) else cls.from_dict(s_obj, auto_batch_size=False)
                        d0 = dest(o_dest)
                        impl_td = []
                        for k in sorted(d._tensordict.keys()):
                            now = B.canon(d._tensordict.get(k))
                            if k in s_tc._tensordict.keys() and now == B.canon(s_tc._tensordict.get(k)):
                                tag = "s_" + k
                            elif k in d0._tensordict.keys() and now == B.canon(d0._tensordict.get(k)):
                                tag = "d_" + k
                            else:
                                tag = "?"
                            impl_td.append([k, [_entry_desc(d._tensordict, k)[0], tag]])
                        corr_reqs.append(sx("c15.update", True, entries(d0, "d"), B.nt_desc(d0), entries(s_tc, "s"), B.nt_desc(s_tc)))
                        corr_pend.append((case, [["td"] + impl_td, ["nt", B.nt_sorted_desc(d)]]))
                    why = None
                    if out is not d:
                        why = f"returned {type(out).__name__}, not the receiver"
                    elif B.canon(d._tensordict) != B.canon(ref):
                        why = "the underlying tensordict differs from the updated plain tensordict"
                    else:
                        bad = B.fields_readable(d)
                        if bad:
                            why = f"after the update the read paths disagree: {bad}"
                    if why:
                        run.oracle_fail(site, case, why, fingerprint=f"update:{method}:{sname}:{why[:50]}")
                    else:
                        run.oracle_ok(site)
    for (case, impl), ans in zip(corr_pend, drv.ask_many(corr_reqs)):
        run.corr("tensorclass.update(_update)", case, impl, parse_sx(ans))


def tuple_pieces_stream(run):
    """pieces returned by the tuple-returning delegated methods are independent instances (B.pieces_independent)"""
    calls = [
        ("split", lambda t: t.split([1, 1], 0)), ("split-int", lambda t: t.split(1, 1)), ("chunk", lambda t: t.chunk(2, 0)),
        ("unbind0", lambda t: t.unbind(0)), ("unbind1", lambda t: t.unbind(1)),
        ("split_keys", lambda t: t.split_keys(["x"])), ("split_keys-2", lambda t: t.split_keys(["x"], ["s"])),
        ("split_keys-o", lambda t: t.split_keys(["o", "s"], strict=False)),
        ("torch.split", lambda t: torch.split(t, 1, 0)), ("torch.unbind", lambda t: torch.unbind(t, 1)),
    ]
    for cname in ("D1", "S1", "Ac", "Nc", "Sh", "D2"):
        cls = Z.BEHAVIOUR_CLASSES[cname]
        for label, call in calls:
            for lazy in (False, True):
                tc = Z.make_lazy(cls) if lazy else Z.make(cls)
                case = [cname, label + ("@lazy" if lazy else "")]
                run.case(("tuple-pieces",) + tuple(case))
                try:
                    with warnings.catch_warnings():
                        warnings.simplefilter("ignore")
                        pieces = call(tc)
                except Exception as e:  # noqa: BLE001
                    run.count("tuple_pieces.raises", f"{case[1]}:{err_class(e)}")
                    continue
                tcs = [q for q in pieces if is_tensorclass(q)]
                if len(tcs) < 2:
                    run.count("tuple_pieces.fewer_than_two", case[1])
                    continue
                why = None
                for i, q in enumerate(tcs):
                    bad = B.fields_readable(q) if type(q) is cls else []
                    if bad:
                        why = f"piece {i}: read paths disagree: {bad}"
                        break
                why = why or B.pieces_independent(pieces, tc)
                if why is None and not lazy:
                    # (pieces of a lazy stack taken along its stack dim hold the receiver's own members: a write on a piece is a
                    # write on a member, for the plain tensordict too — the receiver is only compared for dense receivers)
                    bad = B.fields_readable(tc)
                    if bad:
                        why = f"the receiver's read paths disagree afterwards: {bad}"
                if why:
                    run.oracle_fail("tuple-pieces", case, why, fingerprint=f"tuple-pieces:{case[1]}:{why[:50]}")
                else:
                    run.oracle_ok("tuple-pieces")


# --------------------------------------------------------------------------- tc.set(key, value, inplace=…) and tuple keys
def _err_of(e):
    if isinstance(e, RuntimeError) and "locked" in str(e).lower():
        return "lock"
    return err_class(e)


def _copy_ok(tc, f, written, locked):
    """does `TensorDict.set(f, written, inplace=True)` succeed on (a copy of) the underlying tensordict?  (tensordict
    behaviour, handed to the model as `CopyOk`)"""
    if f not in tc._tensordict.keys():
        return True
    ref = tc._tensordict.clone()
    if locked:
        ref.lock_()
    try:
        with warnings.catch_warnings():
            warnings.simplefilter("ignore")
            ref.set(f, written, inplace=True)
        return True
    except Exception:  # noqa: BLE001
        return False


def set_inplace_stream(run, drv):
    """`tc.set(field, value, inplace=…)` on the typed-field grid: class options x annotation x value kind x what the field
    holds x lock; compared with the model `setFieldI` (error class / where the value lands / what reads back)."""
    classes = [("Tp", Tp, False, False), ("TpA", TpA, True, False), ("TpN", TpN, False, True), ("TpS", TpS, True, False)]
    priors = [("none", lambda: None), ("tensor", lambda: torch.tensor(9.0)), ("nontensor", lambda: "prior")]
    reqs, pend = [], []
    for cname, cls, autocast, nocast in classes:
        fields = sorted(cls.__expected_keys__)
        for f, (hint, target) in HINTS.items():
            for vname, vkind, mk in _values():
                for pname, mkp in priors:
                    for locked in (False, True):
                        for inplace in (True, False) if not locked else (True,):
                            v = mk()
                            cast_ok = other_ok = True
                            if autocast and hint in ("accepted", "collection") and vkind not in ("none", "dict"):
                                try:
                                    _expected_python("castAccepted", v, target)
                                except TypeError:
                                    cast_ok = False
                                except Exception:  # noqa: BLE001
                                    continue
                            if autocast and hint == "othertype" and vkind not in ("none", "dict"):
                                try:
                                    target(v)
                                except TypeError:
                                    other_ok = False
                                except Exception:  # noqa: BLE001
                                    continue
                            tc = cls(batch_size=[])
                            try:
                                pv = mkp()
                                if pv is not None:
                                    tc._tensordict.set(f, pv if isinstance(pv, torch.Tensor) else NonTensorData(pv))
                                    tc._non_tensordict.pop(f, None)
                            except Exception:  # noqa: BLE001
                                continue
                            # CopyOk: one flag per value `_set` may hand to `set_tensor`
                            ck = []
                            for sym in ("asTensor", "raw", "castAccepted", "fromDict", "castOther"):
                                try:
                                    w = _expected_python(sym, v, target) if sym != "raw" else v
                                    if sym in ("raw", "castOther"):
                                        w = NonTensorData(w)
                                    ck.append(_copy_ok(tc, f, w, locked))
                                except Exception:  # noqa: BLE001
                                    ck.append(True)          # this value cannot be built: the model cannot reach that branch
                            # the property: a tensor value is written as the plain tensordict writes it
                            td_accepts = None
                            if vkind == "tensor" and not (autocast and hint in ("othertype", "collection")):      # (those annotations convert the value)
                                ref = tc._tensordict.clone()
                                if locked:
                                    ref.lock_()
                                try:
                                    with warnings.catch_warnings():
                                        warnings.simplefilter("ignore")
                                        ref.set(f, v, inplace=inplace)
                                    td_accepts = True
                                except Exception:  # noqa: BLE001
                                    td_accepts = False
                            if locked:
                                tc.lock_()
                            es = [[k, _entry_desc(tc._tensordict, k)] for k in tc._tensordict.keys()]
                            nt = [[k, None if x is None else "v"] for k, x in tc._non_tensordict.items()]
                            case = [cname, f, vname, pname, "locked" if locked else "unlocked", "inplace" if inplace else "replace"]
                            try:
                                with time_limit(10), warnings.catch_warnings():
                                    warnings.simplefilter("ignore")
                                    out = tc.set(f, v, inplace=inplace)
                                if f in tc._tensordict.keys():
                                    e = tc._tensordict.get(f)
                                    loc = "nt" if isinstance(e, (NonTensorData, NonTensorStack)) else "leaf"
                                elif f in tc._non_tensordict:
                                    loc = "placeholder"
                                else:
                                    loc = "nowhere"
                                impl = ["ok", loc, B.canon(getattr(tc, f))]
                                if out is not tc:
                                    impl = ["ok-but-returned", type(out).__name__]
                            except TimeoutError:
                                raise
                            except Exception as e:  # noqa: BLE001
                                impl = ["err", _err_of(e)]
                            run.case(tuple(case), nontrivial=True)
                            run.count("set_inplace.outcome", impl[0] if impl[0] != "ok" else impl[1])
                            if td_accepts and impl[0] == "err" and impl[1] != "type":
                                run.oracle_fail("set-inplace", case, f"TensorDict.set({f!r}, <{vname}>, inplace={inplace}) writes the tensor, the tensorclass raises ({impl[1]})",
                                                fingerprint=f"set-inplace:{cname}:{f}:{vname}:{pname}:raises:{impl[1]}")
                            reqs.append(sx("c15.setfieldi", fields, autocast, nocast, hint, inplace, ck, locked, es, nt, f,
                                           None if vkind == "none" else vkind, cast_ok, other_ok))
                            pend.append((case, impl, v, target, f, tc))
    for (case, impl, v, target, f, tc), ans, rq in zip(pend, drv.ask_many(reqs), reqs):
        m = parse_sx(ans)
        if m == ["bad-op"]:
            from common import Infra
            raise Infra(f"driver rejected {rq}")
        if m[0] == "err":
            model = ["err", {"lock": "lock", "attr": "other", "type": "type", "runtime": "runtime", "value": "value"}.get(m[1], m[1])]
        else:
            state, read = m[1], m[2]
            tdm = {k: e for k, e in state[0][1:]}
            loc = "placeholder"
            if f in tdm:
                loc = "nt" if tdm[f][0] in ("nt", "stack") else "leaf"
            sym = read[1]
            try:
                exp = None if sym == "none" else _expected_python(sym, v, target)
                model = ["ok", loc, B.canon(exp)]
            except Exception as e:  # noqa: BLE001
                model = ["ok", loc, f"cannot-build-expected:{type(e).__name__}"]
        if case[5] == "inplace" and impl[0] == "ok" and model[0] == "ok" and isinstance(impl[2], list) and isinstance(model[2], list) \
                and impl[2][:1] == ["T"] and model[2][:1] == ["T"]:
            # `dest.copy_(value)` keeps the dtype of the existing entry: values and shape are compared
            impl = impl[:2] + [[impl[2][2], [float(x) for x in impl[2][3]]]]
            model = model[:2] + [[model[2][2], [float(x) for x in model[2][3]]]]
        run.corr("set_inplace(_set with inplace)", case, impl, model)
        if impl[0] == "ok":
            bad = B.fields_readable(tc)
            if bad:
                run.oracle_fail("set-inplace", case, f"after tc.set({f!r}, <{case[2]}>, inplace={case[5] == 'inplace'}): {bad}", fingerprint=f"set-inplace:{case[0]}:{f}:{case[2]}")
            else:
                run.oracle_ok("set-inplace")


def set_tuple_stream(run, drv):
    """`tc.set(tuple_key, value, inplace=…)`: 1-tuples and nested keys, locked or not, against the model `setTuple` and against
    the same call on the plain tensordict (the property)."""
    hints = {"x": "accepted", "n": "collection", "s": "othertype", "o": "any", "d": "othertype"}
    keys = [("x",), ("n", "y"), ("n", "t"), ("s",), ("o",)]
    values = [("tensor", "tensor", lambda k: torch.zeros(2, 3, 4) if k == ("x",) else torch.zeros(2, 3)), ("str", "other", lambda k: "new")]
    reqs, pend = [], []
    for cname in ("D1", "S1", "Ac", "Nc"):
        cls = Z.BEHAVIOUR_CLASSES[cname]
        autocast, nocast = cname == "Ac", cname == "Nc"
        fields = sorted(cls.__expected_keys__)
        for key in keys:
            for vname, vkind, mk in values:
                for locked in (False, True):
                    for inplace in (False, True):
                        tc, ref_tc = Z.make(cls), Z.make(cls)
                        td = Z.make(cls)._tensordict
                        v = mk(key)
                        if locked:
                            tc.lock_(), td.lock_(), ref_tc.lock_()
                        f = key[0]
                        # what the nested `set` does, and whether the store-back can copy in place (tensordict behaviour)
                        nested_ok, nested_err = True, "ok"
                        written = v
                        if len(key) > 1:
                            try:
                                with warnings.catch_warnings():
                                    warnings.simplefilter("ignore")
                                    written = getattr(ref_tc, f).set(key[1:], v, inplace=inplace)
                            except Exception as e:  # noqa: BLE001
                                nested_ok, nested_err = False, {"other": "attr"}.get(_err_of(e), _err_of(e))
                        cast_ok = True
                        if autocast and hints[f] in ("accepted", "collection") and len(key) == 1 and vkind == "other":
                            cast_ok = False          # a str cannot be cast to a tensor / collection annotation (TypeError)
                        ok_t = _copy_ok(tc, f, written, locked) if nested_ok and not isinstance(written, str) else True
                        try:
                            ok_raw = _copy_ok(tc, f, NonTensorData(v if len(key) == 1 else "x"), locked)
                        except Exception:  # noqa: BLE001
                            ok_raw = True
                        ck = [ok_t, ok_raw, ok_t, True, ok_raw]
                        es = [[k, _entry_desc(tc._tensordict, k)] for k in tc._tensordict.keys()]
                        nt = [[k, None if x is None else "v"] for k, x in tc._non_tensordict.items()]
                        case = [cname, "/".join(key), vname, "locked" if locked else "unlocked", "inplace" if inplace else "replace"]

                        def call(o):
                            try:
                                with time_limit(10), warnings.catch_warnings():
                                    warnings.simplefilter("ignore")
                                    o.set(key, v, inplace=inplace)
                                return "ok", None
                            except TimeoutError:
                                raise
                            except Exception as e:  # noqa: BLE001
                                return "err", e
                        st_tc, e_tc = call(tc)
                        st_td, e_td = call(td)
                        if st_tc == "ok":
                            loc = "placeholder"
                            if f in tc._tensordict.keys():
                                e = tc._tensordict.get(f)
                                loc = "nt" if isinstance(e, (NonTensorData, NonTensorStack)) else "leaf"
                            impl = ["ok", loc, B.nt_sorted_desc(tc)]
                        else:
                            impl = ["err", _err_of(e_tc)]
                        run.case(("set-tuple",) + tuple(case), nontrivial=st_td == "ok")
                        kind = vkind if len(key) == 1 else "tensor"
                        reqs.append(sx("c15.settuple", fields, autocast, nocast, hints[f], inplace, ck, locked, es, nt, list(key), kind, cast_ok, nested_err))
                        pend.append((case, impl, f))
                        # oracle: as the plain tensordict (non-tensor values in place: the tensorclass refuses by design, finding)
                        site = "set-tuple"
                        if st_td == "ok" and st_tc != "ok" and autocast and isinstance(e_tc, TypeError):
                            run.count("set_tuple.typed_field_rejects", case[1])       # the annotation cannot take the value: typed fields, not a divergence
                        elif st_td == "ok" and st_tc != "ok":
                            run.oracle_fail(site, case, f"the tensordict performs the write, the tensorclass raises {type(e_tc).__name__}: {str(e_tc)[:90]}",
                                            fingerprint=f"set-tuple:{case[1]}:{vname}:{case[3]}:{case[4]}:raises:{_err_of(e_tc)}")
                        elif st_td == "ok" and not (autocast and hints[f] == "othertype") and B.canon(tc._tensordict) != B.canon(td):
                            # (under autocast a `str` / `int` annotation converts the value: typed fields, compared by the model only)
                            run.oracle_fail(site, case, "the underlying tensordict differs from the plain tensordict after the same call", fingerprint=f"set-tuple:{case[1]}:content")
                        elif st_td == "ok":
                            bad = B.fields_readable(tc)
                            if bad:
                                run.oracle_fail(site, case, f"read paths disagree: {bad}", fingerprint=f"set-tuple:{case[1]}:fields")
                            else:
                                run.oracle_ok(site)
                        else:
                            run.count("set_tuple.td_raises", _err_of(e_td))
    for (case, impl, f), ans, rq in zip(pend, drv.ask_many(reqs), reqs):
        m = parse_sx(ans)
        if m == ["bad-op"]:
            from common import Infra
            raise Infra(f"driver rejected {rq}")
        if m[0] == "err":
            model = ["err", {"lock": "lock", "attr": "other", "type": "type", "runtime": "runtime", "value": "value"}.get(m[1], m[1])]
        else:
            state = m[1]
            tdm = {k: e for k, e in state[0][1:]}
            loc = "placeholder"
            if f in tdm:
                loc = "nt" if tdm[f][0] in ("nt", "stack") else "leaf"
            model = ["ok", loc, sorted([[k, "none" if x == "none" else "v"] for k, x in state[1][1]])]
        run.corr("set_tuple(_set with a tuple key)", case, impl, model)


# --------------------------------------------------------------------------- multi-step histories
def history_stream(run):
    """random HISTORIES (3-7 steps) on one instance: field writes of every kind, in-place and tuple-key `set`, `update` from a tensorclass /
    dict, indexed assignment, lock / unlock, and steps that replace the instance by a derived one (clone, apply, pickle, stack+unbind,
    to_tensordict → from_tensordict).  After EVERY step: (1) every field reads what the history says it holds, (2) all read paths of the
    instance agree (`fields_readable`: attribute / to_dict / to_tensordict / items), (3) the well-formedness invariant of the model holds on
    the real object (every declared field lives in exactly one of `_tensordict` / `_non_tensordict`, nothing else does)."""
    n = 120 if run.tier == "quick" else 1200
    names = ["D1", "S1", "Nc", "Sh", "D2", "Ac"]
    for it in range(n):
        cname = run.rng.choice(names)
        cls = Z.BEHAVIOUR_CLASSES[cname]
        lazy = run.rng.random() < 0.2
        t = Z.make_lazy(cls) if lazy else Z.make(cls)
        fields = sorted(cls.__expected_keys__)
        exp = {f: getattr(t, f) for f in fields if f != "n"}
        exp["n.y"], exp["n.t"] = t.n.y, t.n.t
        hist = []
        locked = False

        def tens(shape, k):
            return torch.full(shape, float(k))

        def check(step):
            why = None
            for f, v in exp.items():
                try:
                    got = t.n.y if f == "n.y" else t.n.t if f == "n.t" else getattr(t, f)
                except Exception as e:  # noqa: BLE001
                    why = f"reading {f} raises {type(e).__name__}: {str(e)[:60]}"
                    break
                if lazy and isinstance(got, list) and not isinstance(v, list):
                    # a lazily stacked tensordict keeps a non-tensor value per member: it reads as the nested list of that value
                    # (representation: C16's subject); the content is what is compared
                    flat = got
                    while flat and isinstance(flat[0], list):
                        flat = [y for x in flat for y in x]
                    if all(x == v for x in flat):
                        continue
                if B.canon(got) != B.canon(v):
                    why = f"field {f} reads {str(B.canon(got))[:80]}, the history says {str(B.canon(v))[:80]}"
                    break
            if why is None:
                bad = B.fields_readable(t)
                if bad:
                    why = f"read paths disagree: {bad}"
            if why is None and not lazy:
                tdk, ntk = set(t._tensordict.keys()), set(t._non_tensordict.keys())
                inst = set(k for k in fields if k in t.__dict__)
                if not tdk <= set(fields) or not ntk <= set(fields):
                    why = f"undeclared keys: tensordict {sorted(tdk - set(fields))}, placeholders {sorted(ntk - set(fields))}"
                elif tdk & ntk:
                    why = f"fields in both dicts: {sorted(tdk & ntk)}"
                elif set(fields) - tdk - ntk - inst:
                    why = f"fields in neither dict: {sorted(set(fields) - tdk - ntk - inst)}"
            return why
        for step in range(run.rng.randint(3, 7)):
            k = it * 10 + step + 1
            op = run.rng.choice(["attr-x", "attr-o", "attr-o-none", "attr-s", "set-inplace-x", "set-tuple-ny", "update-tc", "update-dict", "setitem",
                                 "lock", "unlock", "clone", "apply", "pickle", "stack-unbind", "del-none-field"])
            if op == "del-none-field" and (exp.get("o") is not None or locked or lazy):
                op = "attr-o-none"
            hist.append(op)
            new = dict(exp)
            writes = op in ("attr-x", "attr-o", "attr-o-none", "attr-s", "set-tuple-ny", "update-tc", "update-dict", "setitem", "del-none-field") or (op == "set-inplace-x" and False)
            try:
                with time_limit(20), warnings.catch_warnings():
                    warnings.simplefilter("ignore")
                    if op == "attr-x":
                        v = tens((2, 3, 4), k); t.x = v; new["x"] = v
                    elif op == "attr-o":
                        v = tens((2, 3), k); t.o = v; new["o"] = v
                    elif op == "attr-o-none":
                        t.o = None; new["o"] = None
                    elif op == "del-none-field":
                        # `del_` of a field that holds None: it keeps reading None and the instance stays well formed (`_del_`, model delField)
                        t.del_("o"); new["o"] = None
                    elif op == "attr-s":
                        t.s = f"s{k}"; new["s"] = f"s{k}"
                    elif op == "set-inplace-x":
                        v = tens((2, 3, 4), k); t.set("x", v, inplace=True); new["x"] = v
                    elif op == "set-tuple-ny":
                        v = tens((2, 3), k); t.set(("n", "y"), v); new["n.y"] = v
                    elif op == "update-tc":
                        src = Z.make(cls, seed=k % 7)
                        if run.rng.random() < 0.5:
                            src.o = tens((2, 3), k)
                        t.update(src)
                        new["x"], new["n.y"] = src.x, src.n.y
                        new["s"], new["d"], new["n.t"] = src.s, src.d, src.n.t      # (update writes every entry of the source)
                        if src.o is not None:
                            new["o"] = src.o
                    elif op == "update-dict":
                        v = tens((2, 3, 4), k); t.update({"x": v}); new["x"] = v
                    elif op == "setitem":
                        src = Z.make(cls, seed=k % 7)
                        if exp.get("o") is not None:
                            src.o = tens((2, 3), k)
                        t[0] = src[0]
                        new["x"] = exp["x"].clone(); new["x"][0] = src.x[0]
                        new["n.y"] = exp["n.y"].clone(); new["n.y"][0] = src.n.y[0]
                        if exp.get("o") is not None:
                            new["o"] = exp["o"].clone(); new["o"][0] = src.o[0]
                        # the non-tensor fields of the history may differ from the source's: position 0 takes the source's payload
                        for f in ("s", "d", "n.t"):
                            cur = exp[f]
                            srcv = src.n.t if f == "n.t" else getattr(src, f)
                            if cur != srcv and not isinstance(cur, list):
                                new[f] = [[srcv] * 3, [cur] * 3]
                            elif isinstance(cur, list):
                                new[f] = [[srcv] * 3] + cur[1:]
                    elif op == "lock":
                        t.lock_(); locked = True
                    elif op == "unlock":
                        t.unlock_(); locked = False
                    elif op == "clone":
                        t = t.clone(); locked = False
                    elif op == "apply":
                        t = t.apply(lambda x: x + 1); locked = False
                        for f in ("x", "o", "n.y"):
                            if isinstance(exp.get(f), torch.Tensor):
                                new[f] = exp[f] + 1
                    elif op == "pickle":
                        t = pickle.loads(pickle.dumps(t))
                    elif op == "stack-unbind":
                        t = torch.stack([t, t.clone()], 0).unbind(0)[1]; locked = False
                    elif op == "roundtrip":
                        t = cls.from_tensordict(t.to_tensordict(retain_none=False)); locked = False
                exp = new
                if lazy and op in ("clone", "apply", "pickle", "stack-unbind", "roundtrip", "setitem", "update-tc"):
                    lazy = isinstance(t._tensordict, LazyStackedTensorDict)
            except TimeoutError:
                raise
            except Exception as e:  # noqa: BLE001
                if locked and writes and isinstance(e, RuntimeError) and "lock" in str(e).lower():
                    run.count("history.lock_refusals", op)        # a locked instance refuses the write and keeps its content (checked below)
                elif lazy:
                    run.count("history.lazy_raises", f"{op}:{type(e).__name__}")     # (lazily stacked receivers: C08's operations, not judged here)
                    break
                else:
                    run.case(("history", cname, tuple(hist)))
                    run.oracle_fail("history", [cname, list(hist)], f"step {len(hist)} ({op}) raises {type(e).__name__}: {str(e)[:100]}",
                                    fingerprint=f"history:{op}:raises:{err_class(e)}")
                    break
            run.case(("history", cname, tuple(hist)))
            why = check(step)
            if why:
                run.oracle_fail("history", [cname, "lazy" if lazy else "dense", list(hist)], f"after step {len(hist)} ({op}): {why}", fingerprint=f"history:{op}:{why[:40]}")
                break
            run.oracle_ok("history")
