"""C13 helpers: random module graphs / parameter trees / with-block programs, the real modules built
from them, snapshots in the protocol's vocabulary, and the interpreter of programs on the real library.

A *graph* is {"mods": [ {"params": [(name, tid|None)], "buffers": [(name, tid|None, persistent)],
"plain": [(name, tid)], "kids": [(name, mid|None)]} ... ], "kinds": {tid: "p"|"t"}}; module 0 is the
root, kids point to larger indices (acyclic), the same index may be reached twice (shared submodule) and
the same tid may sit in several cells (tied tensors).
A *tree* is a list of (key, ("leaf", tid) | ("node", tree)).
A *program* is a list of "nop" | ("raise", how) | ("block", tree, mid, program) | ("try", program).
"""
from __future__ import annotations

import gc

import torch
from torch import nn

TNAMES = ["w", "b", "rm", "rv", "g", "x", "y"]
KNAMES = ["l0", "l1", "sub", "enc", "dec"]


class Boom(Exception):
    pass


class BaseBoom(BaseException):
    """a BaseException that is not an Exception (like KeyboardInterrupt, SystemExit, GeneratorExit, asyncio.CancelledError)"""


def make_base(kind):
    import asyncio
    e = {"base": BaseBoom, "keyboard": KeyboardInterrupt, "system_exit": SystemExit, "generator_exit": GeneratorExit,
         "cancelled": asyncio.CancelledError}[kind]()
    e._c13 = True      # so that the harness only swallows its own
    return e


class GMod(nn.Module):
    """forward = x + sum over the attribute names registered at build time of coef*value, + the kids"""

    def __init__(self):
        super().__init__()
        object.__setattr__(self, "_cells", [])

    def forward(self, x):
        out = x
        for name, coef in self._cells:
            v = getattr(self, name)
            out = out + coef * v.sum()
        for _, kid in self._modules.items():
            if kid is not None:
                out = out + kid(x)
        return out


class GModCustom(GMod):
    """the same module with a class-level __setattr__ override: `_to_module` takes its other branch (torch swap_tensor / setattr)"""

    def __setattr__(self, name, value):
        super().__setattr__(name, value)


class World:
    """tensor objects by tid (kept alive so that id() is stable) and the reverse map"""

    def __init__(self, kinds=None):
        self.kinds = dict(kinds or {})
        self.objs = {}
        self.rev = {}
        self.next_unk = 900000

    def T(self, tid):
        if tid not in self.objs:
            kind = self.kinds[tid]
            base = torch.tensor([float(tid)], dtype=torch.float64)
            if kind == "pl":
                # an UninitializedParameter (what a lazy layer holds before its first forward)
                obj = nn.parameter.UninitializedParameter(requires_grad=False)
            else:
                obj = nn.Parameter(base, requires_grad=False) if kind == "p" else base
            self.objs[tid] = obj
            self.rev[id(obj)] = tid
        return self.objs[tid]

    def tid_of(self, obj):
        t = self.rev.get(id(obj))
        if t is None:
            # an object the harness did not create (a clone, a re-wrapped Parameter …)
            t = self.next_unk
            self.next_unk += 1
            self.objs[t] = obj
            self.rev[id(obj)] = t
            self.kinds[t] = ("pl" if isinstance(obj, nn.parameter.UninitializedParameter) else "p") if isinstance(obj, nn.Parameter) else "t"
        return t

    def tid_by_storage(self, obj):
        """a detached view of one of the harness tensors: found by its storage; reported as a plain tensor"""
        for t, o in self.objs.items():
            if t < 900000 and o.data_ptr() == obj.data_ptr():
                return t
        return self.tid_of(obj)

    def fresh(self, kind):
        tid = max([0] + [t for t in self.kinds if t < 900000]) + 1
        self.kinds[tid] = kind
        return tid


# --------------------------------------------------------------------------- generation
def gen_graph(rng, max_mods=5):
    n = rng.randint(1, max_mods)
    kinds = {}
    mods = []
    tid = [0]

    def new(kind):
        tid[0] += 1
        kinds[tid[0]] = kind
        return tid[0]

    def pick(kind, tie_p):
        pool = [t for t, k in kinds.items() if k == kind]
        if pool and rng.random() < tie_p:
            return rng.choice(pool)
        return new(kind)

    for i in range(n):
        names = TNAMES[:]
        rng.shuffle(names)
        params, buffers, plain = [], [], []
        for _ in range(rng.choice([0, 1, 1, 2, 2, 3])):
            nm = names.pop()
            params.append((nm, None if rng.random() < 0.12 else pick("p", 0.25)))
        for _ in range(rng.choice([0, 0, 1, 1, 2])):
            nm = names.pop()
            if rng.random() < 0.12:
                buffers.append((nm, None, True))
            else:
                kind = "p" if rng.random() < 0.08 else "t"
                buffers.append((nm, pick(kind, 0.2), rng.random() < 0.75))
        for _ in range(rng.choice([0, 0, 0, 1])):
            nm = names.pop()
            plain.append((nm, pick("t", 0.15)))
        mods.append({"params": params, "buffers": buffers, "plain": plain, "kids": [], "custom": rng.random() < 0.3})
    # every module j>0 gets a parent with a smaller index; extra edges give shared submodules
    for j in range(1, n):
        par = rng.randrange(0, j)
        mods[par]["kids"].append(j)
        if rng.random() < 0.3:
            mods[rng.randrange(0, j)]["kids"].append(j)
    for md in mods:
        knames = KNAMES[:]
        rng.shuffle(knames)
        kids = md["kids"][:len(knames) - 1]
        rng.shuffle(kids)
        out = [(knames.pop(), k) for k in kids]
        if rng.random() < 0.1 and knames:
            out.insert(rng.randrange(0, len(out) + 1), (knames.pop(), None))
        md["kids"] = out
    return {"mods": mods, "kinds": kinds}


def gen_tree(rng, graph, world, m, p_keep=0.85, full=False, per_cell=None, malformed=False, depth=0, per_mod=None):
    """a parameter tree for module m of the graph. per_cell: dict (mid,name)->tid to give shared paths the
    same replacement (consistent trees for the functional reference)."""
    md = graph["mods"][m]
    out = []
    cells = [(nm, t) for nm, t in md["params"] if t is not None] + [(nm, t) for nm, t, _ in md["buffers"] if t is not None]
    if rng.random() < 0.3:
        cells += [(nm, t) for nm, t in md["plain"]]
    for nm, t in cells:
        if not full and rng.random() > p_keep:
            continue
        if per_cell is not None and (m, nm) in per_cell:
            out.append((nm, ("leaf", per_cell[(m, nm)])))
            continue
        r = rng.random()
        if r < 0.08:
            new = t  # the very same object
        elif r < 0.2 and any(k < 900000 for k in world.kinds):
            new = rng.choice([k for k in world.kinds if k < 900000])  # any existing tensor (tied / cross-kind)
        else:
            new = world.fresh("p" if rng.random() < 0.5 else "t")
        if per_cell is not None:
            per_cell[(m, nm)] = new
        out.append((nm, ("leaf", new)))
    for nm, k in md["kids"]:
        if k is None:
            if malformed and rng.random() < 0.5:
                out.append((nm, ("node", [])))
            continue
        if not full and rng.random() > p_keep:
            continue
        if per_mod is not None and k in per_mod and rng.random() < 0.93:
            # a submodule reached a second time: normally the same sub-tensordict (what from_module gives)
            out.append((nm, ("node", per_mod[k])))
            continue
        sub = gen_tree(rng, graph, world, k, p_keep, full, per_cell, malformed, depth + 1, per_mod)
        if per_mod is not None:
            per_mod.setdefault(k, sub)
        out.append((nm, ("node", sub)))
    if rng.random() < 0.3:
        rng.shuffle(out)
    if malformed and rng.random() < 0.6:
        used = {k for k, _ in out}
        r = rng.random()
        pos = rng.randrange(0, len(out) + 1)
        if r < 0.35:
            free = [n for n in TNAMES + ["zz"] if n not in used and all(n != a for a, *_ in md["params"] + md["buffers"] + md["plain"])]
            if free:
                out.insert(pos, (rng.choice(free), ("leaf", world.fresh("t"))))
        elif r < 0.55:
            nones = [a for a, t in md["params"] if t is None] + [a for a, t, _ in md["buffers"] if t is None]
            if nones and nones[0] not in used:
                out.insert(pos, (nones[0], ("leaf", world.fresh("p"))))
        elif r < 0.75:
            free = [n for n in KNAMES + ["zz"] if n not in used and all(n != a for a, _ in md["kids"])]
            if free:
                out.insert(pos, (rng.choice(free), ("node", [("w", ("leaf", world.fresh("t")))])))
        elif r < 0.9:
            ks = [a for a, k in md["kids"] if k is not None and a not in used]
            if ks:
                out.insert(pos, (ks[0], ("leaf", world.fresh("t"))))
        else:
            ts = [a for a, t in md["params"] if t is not None and a not in used]
            if ts:
                out.insert(pos, (ts[0], ("node", [])))
    return out


def gen_prog(rng, graph, world, depth=0, max_depth=3):
    out = []
    for _ in range(rng.randint(1, 3)):
        r = rng.random()
        if r < 0.3:
            out.append("nop")
        elif r < 0.45:
            how = rng.choice(["direct", "direct", "forward", "pre_hook", "after_forward"])
            if rng.random() < 0.35:
                out.append(("raise_base", how, rng.choice(["base", "keyboard", "system_exit", "generator_exit", "cancelled"])))
            else:
                out.append(("raise", how))
        elif r < 0.85 and depth < max_depth:
            m = rng.randrange(0, len(graph["mods"]))
            tree = gen_tree(rng, graph, world, m)
            # temp: the parameter tensordict is an unreferenced temporary / deleted inside the body, so the weak
            # reference held by the swap tensordict is dead when __exit__ runs
            temp = rng.choice([None, None, None, "inline", "del_in_body"])
            out.append(("block", tree, m, gen_prog(rng, graph, world, depth + 1, max_depth), temp))
        elif depth < max_depth:
            out.append(("try", gen_prog(rng, graph, world, depth + 1, max_depth)))
        else:
            out.append("nop")
    return out


# --------------------------------------------------------------------------- protocol text
def ent_sx(world, nm, t):
    return f"({nm} none)" if t is None else f"({nm} {t} {world.kinds[t]})"


def graph_sx(graph, world):
    parts = []
    for md in graph["mods"]:
        ps = " ".join(ent_sx(world, n, t) for n, t in md["params"])
        bs = " ".join(ent_sx(world, n, t) for n, t, _ in md["buffers"])
        ds = " ".join(ent_sx(world, n, t) for n, t in md["plain"])
        ks = " ".join(f"({n} {'none' if k is None else k})" for n, k in md["kids"])
        nps = " ".join(n for n, t, pers in md["buffers"] if not pers)
        parts.append(f"(mod (params{' ' if ps else ''}{ps}) (buffers{' ' if bs else ''}{bs}) (plain{' ' if ds else ''}{ds}) (kids{' ' if ks else ''}{ks})"
                     f"{' (np ' + nps + ')' if nps else ''}{' custom' if md.get('custom') else ''})")
    return "(mods " + " ".join(parts) + ")"


def tree_sx(tree, world, head="td"):
    def one(nm, v):
        if v[0] == "leaf":
            return f"({nm} (leaf {v[1]} {world.kinds[v[1]]}))"
        return f"({nm} {tree_sx(v[1], world, 'node')})"
    inner = " ".join(one(nm, v) for nm, v in tree)
    return f"({head}{' ' if inner else ''}{inner})"


def prog_sx(prog, world):
    def one(st):
        if st == "nop":
            return "nop"
        if st[0] == "raise":
            return "raise"
        if st[0] == "raise_base":
            return "raiseb"
        if st[0] == "block":
            body = " ".join(one(s) for s in st[3])
            head = "blockt" if len(st) > 4 and st[4] else "block"
            return f"({head} {tree_sx(st[1], world)} {st[2]}{' ' if body else ''}{body})"
        body = " ".join(one(s) for s in st[1])
        return f"(try{' ' if body else ''}{body})"
    return "(" + " ".join(one(s) for s in prog) + ")"


# --------------------------------------------------------------------------- the real thing
def build(graph, world):
    mods = [GModCustom() if md.get("custom") else GMod() for md in graph["mods"]]
    cell = 0
    for i in reversed(range(len(mods))):
        md, m = graph["mods"][i], mods[i]
        for nm, t in md["params"]:
            m.register_parameter(nm, None if t is None else world.T(t))
        for nm, t, pers in md["buffers"]:
            m.register_buffer(nm, None if t is None else world.T(t), persistent=pers)
        for nm, t in md["plain"]:
            setattr(m, nm, world.T(t))
        for nm, *_ in md["params"] + md["buffers"] + md["plain"]:
            cell += 1
            if getattr(m, nm, None) is not None:
                m._cells.append((nm, float(cell * cell)))
        for nm, k in md["kids"]:
            m.add_module(nm, None if k is None else mods[k])
    return mods


def make_td(tree, world):
    from tensordict import TensorDict

    def conv(tr):
        return {nm: (world.T(v[1]) if v[0] == "leaf" else TensorDict(conv(v[1]), batch_size=[])) for nm, v in tr}
    return TensorDict(conv(tree), batch_size=[])


def td_tree(td, world, detached=False):
    """read a tensordict back as a protocol tree (parsed form); detached=True: leaves are detached views, identified by storage"""
    from tensordict.base import TensorDictBase
    out = ["td"]
    for k, v in td.items():
        if isinstance(v, TensorDictBase):
            sub = td_tree(v, world, detached)
            out.append([k, ["node"] + sub[1:]])
        elif detached:
            out.append([k, ["leaf", world.tid_by_storage(v), "p" if isinstance(v, nn.Parameter) else "t"]])
        else:
            t = world.tid_of(v)
            out.append([k, ["leaf", t, world.kinds[t]]])
    return out


def snapshot(mods, world):
    """the heap in the protocol's parsed form: ordered _parameters / _buffers / tensor entries of __dict__"""
    out = ["mods"]
    for m in mods:
        def ent(n, v):
            if v is None:
                return [n, "none"]
            t = world.tid_of(v)
            return [n, t, world.kinds[t]]
        ps = ["params"] + [ent(n, v) for n, v in m._parameters.items()]
        bs = ["buffers"] + [ent(n, v) for n, v in m._buffers.items()]
        ds = ["plain"] + [ent(n, v) for n, v in m.__dict__.items() if isinstance(v, torch.Tensor)]
        nh = len(m._forward_pre_hooks)
        out.append(["mod", ps, bs, ds] + ([["hooks", nh]] if nh else []))
    return out


def id_snapshot(mods):
    """what the property talks about: {qualified name: id(obj)} and the key sets of every module"""
    root = mods[0]
    snap = {
        "params": {k: id(v) for k, v in root.named_parameters(remove_duplicate=False)},
        "buffers": {k: id(v) for k, v in root.named_buffers(remove_duplicate=False)},
        "keys": [(sorted(m._parameters), sorted(m._buffers), sorted(k for k, v in m.__dict__.items() if isinstance(v, torch.Tensor)),
                  sorted(m._non_persistent_buffers_set)) for m in mods],
        "cells": [sorted((k, id(v)) for d in (m._parameters, m._buffers) for k, v in d.items()) +
                  sorted((k, id(v)) for k, v in m.__dict__.items() if isinstance(v, torch.Tensor)) for m in mods],
    }
    return snap


def order_snapshot(mods):
    """the order of the registries: what parameters() / state_dict() / an optimizer see"""
    return [(list(m._parameters), list(m._buffers)) for m in mods]


def keeps_param_slots(graph, world, tree, m, seen=None):
    """does every leaf aimed at a `_parameters` slot carry a Parameter? (a plain tensor put into a parameter slot moves the
    name to `__dict__`; the Parameter coming back is appended: the one case in which the order legitimately changes)"""
    md = graph["mods"][m]
    pslots = {nm for nm, t in md["params"] if t is not None}
    kids = {nm: k for nm, k in md["kids"]}
    for nm, v in tree:
        if v[0] == "leaf":
            if nm in pslots and world.kinds[v[1]] not in ("p", "pl"):
                return False
        elif kids.get(nm) is not None:
            if not keeps_param_slots(graph, world, v[1], kids[nm]):
                return False
    return True


def diff_snap(a, b):
    out = []
    for part in ("params", "buffers"):
        for k in sorted(set(a[part]) | set(b[part])):
            if a[part].get(k) != b[part].get(k):
                out.append(f"{part}:{k}:{'lost' if k not in b[part] else 'added' if k not in a[part] else 'other-object'}")
    if a["keys"] != b["keys"]:
        out.append("key-sets")
    if a["cells"] != b["cells"] and not out:
        out.append("cells")
    return out


def run_prog(prog, mods, tds, swaps, x):
    """interpret a program on the real library; tds: the prebuilt TensorDicts of the blocks in pre-order.
    Returns nothing; raises Boom when the program raises. `swaps` collects the swap tensordicts."""
    root = mods[0]
    for st in prog:
        if st == "nop":
            root(x)
        elif st[0] in ("raise", "raise_base"):
            how = st[1]

            def exc():
                return Boom() if st[0] == "raise" else make_base(st[2])
            if how == "direct":
                raise exc()
            if how == "after_forward":
                root(x)
                raise exc()
            subs = [m for m in root.modules()]
            target = subs[len(subs) // 2]

            def hook(*a, **k):
                raise exc()
            h = target.register_forward_hook(hook) if how == "forward" else target.register_forward_pre_hook(hook)
            try:
                root(x)
            finally:
                h.remove()
            raise exc()  # (the hook did not fire: target not reached) still raise
        elif st[0] == "block":
            temp = st[4] if len(st) > 4 else None
            holder = [tds.pop(0)]
            s = holder[0].to_module(mods[st[2]])
            swaps.append(s)
            if temp == "inline":
                # as in `with make_params().to_module(module):` — nothing else references the tensordict
                holder.clear()
                if s._last_op[1][2]() is not None:
                    gc.collect()
            with s:
                if temp == "del_in_body":
                    holder.clear()
                    if s._last_op[1][2]() is not None:
                        gc.collect()
                run_prog(st[3], mods, tds, swaps, x)
            if temp and s._last_op is not None and s._last_op[1][2]() is not None:
                raise RuntimeError("harness: the parameter tensordict of a `temp` block is still alive")
        else:
            n_after = len(tds) - count_blocks(st[1])     # (lengths only: no extra references to the tensordicts)
            try:
                run_prog(st[1], mods, tds, swaps, x)
            except Exception:  # noqa: BLE001   (`try: … except Exception: pass`)
                # blocks of the skipped statements are never executed: drop their prebuilt tensordicts
                del tds[:len(tds) - n_after]


def count_blocks(prog):
    n = 0
    for st in prog:
        if st == "nop" or st[0] in ("raise", "raise_base"):
            continue
        if st[0] == "block":
            n += 1 + count_blocks(st[3])
        else:
            n += count_blocks(st[1])
    return n


def prog_trees(prog):
    out = []
    for st in prog:
        if st == "nop" or st[0] in ("raise", "raise_base"):
            continue
        if st[0] == "block":
            out.append(st[1])
            out += prog_trees(st[3])
        else:
            out += prog_trees(st[1])
    return out


def shared_subtrees_differ(graph, m, tree, seen=None):
    """does the tree give a submodule that is reached more than once two different sub-tensordicts?
    (`_to_module` reuses the swap of the first visit and never looks at the later ones)"""
    seen = {} if seen is None else seen
    kids = dict(graph["mods"][m]["kids"])
    for nm, v in tree:
        if v[0] != "node" or kids.get(nm) is None:
            continue
        k = kids[nm]
        if k in seen:
            if seen[k] != v[1]:
                return True
            continue
        seen[k] = v[1]
        if shared_subtrees_differ(graph, k, v[1], seen):
            return True
    return False


# --------------------------------------------------------------------------- corpus: protocol text -> structures
def graph_from_sx(text):
    from common import parse_sx
    g = parse_sx(text)
    kinds, mods = {}, []

    def ent(e):
        if e[1] == "none":
            return (str(e[0]), None)
        kinds[int(e[1])] = str(e[2])
        return (str(e[0]), int(e[1]))
    for m in g[1:]:
        parts = {p[0]: p[1:] for p in m[1:] if isinstance(p, list)}
        mods.append({"params": [ent(e) for e in parts["params"]],
                     "buffers": [ent(e) + (str(e[0]) not in [str(x) for x in parts.get("np", [])],) for e in parts["buffers"]],
                     "plain": [ent(e) for e in parts["plain"]],
                     "kids": [(str(k[0]), None if k[1] == "none" else int(k[1])) for k in parts["kids"]],
                     "custom": "custom" in m})
    return {"mods": mods, "kinds": kinds}


def tree_from_parsed(t, kinds):
    out = []
    for nm, v in t[1:]:
        if v[0] == "leaf":
            kinds[int(v[1])] = str(v[2])
            out.append((str(nm), ("leaf", int(v[1]))))
        else:
            out.append((str(nm), ("node", tree_from_parsed(v, kinds))))
    return out


def tree_from_sx(text, kinds):
    from common import parse_sx
    return tree_from_parsed(parse_sx(text), kinds)


def prog_from_sx(text, kinds):
    from common import parse_sx

    def stmt(s):
        if s == "nop":
            return "nop"
        if s == "raise":
            return ("raise", "direct")
        if s == "raiseb":
            return ("raise_base", "direct", "base")
        if s[0] in ("block", "blockt"):
            return ("block", tree_from_parsed(s[1], kinds), int(s[2]), [stmt(x) for x in s[3:]], "inline" if s[0] == "blockt" else None)
        return ("try", [stmt(x) for x in s[1:]])
    return [stmt(x) for x in parse_sx(text)]
