"""C13 extended domain (oracle only, nothing here is in the Lean model): real torch layers and
tensordict wrappers x kinds of parameter tensordicts x to_module options x faults injected in the body.

Oracle = the property text: after the with-block (left normally or by an exception raised anywhere in the
body) `named_parameters(remove_duplicate=False)` / `named_buffers(remove_duplicate=False)` give the very
same objects under the same names, the key sets of `_parameters` / `_buffers` / the non-persistent set of
every submodule are unchanged (for inplace=True also the values), and without a fault the output inside
the block equals `torch.func.functional_call` on a deep copy.
"""
from __future__ import annotations

import copy
import itertools

import torch
from torch import nn

from common import time_limit


class Boom(Exception):
    pass


class Shared(nn.Module):
    def __init__(self):
        super().__init__()
        lin = nn.Linear(3, 3)
        self.d = nn.ModuleDict({"a": lin, "b": lin})
        self.l = nn.ModuleList([lin, nn.Linear(3, 2)])

    def forward(self, x):
        return self.l[1](self.d["a"](x) + self.d["b"](x) + self.l[0](x))


class Tied(nn.Module):
    def __init__(self):
        super().__init__()
        self.enc = nn.Linear(3, 3, bias=False)
        self.dec = nn.Linear(3, 3)
        self.dec.weight = self.enc.weight

    def forward(self, x):
        return self.dec(self.enc(x))


class Bufs(nn.Module):
    def __init__(self):
        super().__init__()
        self.bn = nn.BatchNorm1d(3)
        self.register_buffer("scale", torch.ones(3))
        self.register_buffer("tmp", torch.zeros(3), persistent=False)
        self.register_buffer("nothing", None)
        self.register_parameter("noparam", None)
        self.lin = nn.Linear(3, 2, bias=False)

    def forward(self, x):
        return self.lin(self.bn(x) * self.scale + self.tmp)


class CustomSetattr(nn.Module):
    def __init__(self):
        super().__init__()
        self.lin = nn.Linear(3, 2)
        self.w = nn.Parameter(torch.ones(2))
        self.register_buffer("c", torch.zeros(2))
        self.t = torch.full((2,), 0.5)          # a plain tensor attribute (lives in __dict__)

    def __setattr__(self, name, value):
        super().__setattr__(name, value)

    def forward(self, x):
        return self.lin(x) * self.w + self.c + self.t


class PlainAttr(nn.Module):
    """native __setattr__, a plain tensor attribute next to a parameter and a buffer"""

    def __init__(self):
        super().__init__()
        self.lin = nn.Linear(3, 2)
        self.w = nn.Parameter(torch.ones(2))
        self.register_buffer("c", torch.zeros(2))
        self.t = torch.full((2,), 0.5)

    def forward(self, x):
        return self.lin(x) * self.w + self.c + self.t


def _tdmodule():
    from tensordict.nn import TensorDictModule, TensorDictSequential
    a = TensorDictModule(nn.Linear(3, 4), in_keys=["x"], out_keys=["h"])
    b = TensorDictModule(nn.Sequential(nn.Tanh(), nn.Linear(4, 2)), in_keys=["h"], out_keys=["y"])
    return TensorDictSequential(a, b)


class WithTDParams(nn.Module):
    """a module tree that contains a TensorDictParams (to_module swaps its wrapped tensordict)"""

    def __init__(self):
        super().__init__()
        from tensordict import TensorDict
        from tensordict.nn import TensorDictParams
        self.lin = nn.Linear(3, 2)
        self.extra = TensorDictParams(TensorDict({"scale": torch.ones(2), "sub": {"shift": torch.zeros(2)}}, []))

    def forward(self, x):
        return self.lin(x) * self.extra["scale"] + self.extra["sub", "shift"]


class ParamContainers(nn.Module):
    def __init__(self):
        super().__init__()
        self.ps = nn.ParameterList([nn.Parameter(torch.randn(3)) for _ in range(2)])
        self.pd = nn.ParameterDict({"u": nn.Parameter(torch.randn(2))})
        self.lin = nn.Linear(3, 2)

    def forward(self, x):
        return self.lin(x * self.ps[0] + self.ps[1]) + self.pd["u"]


class Recurrent(nn.Module):
    """nn.LSTM / nn.GRU keep a cached list of their weights (`_flat_weights`) that their own __setattr__ refreshes"""

    def __init__(self):
        super().__init__()
        self.rnn = nn.LSTM(4, 3)
        self.gru = nn.GRU(3, 2)

    def forward(self, x):
        return self.gru(self.rnn(x)[0])[0]


def _weight_norm():
    from torch.nn.utils import parametrizations
    return nn.Sequential(parametrizations.weight_norm(nn.Linear(3, 3)), nn.Tanh(), nn.Linear(3, 2))


FACTORIES = {
    "seq_bn": (lambda: nn.Sequential(nn.Linear(3, 4), nn.BatchNorm1d(4), nn.ReLU(), nn.Linear(4, 2)), "tensor"),
    "shared": (Shared, "tensor"),
    "tied": (Tied, "tensor"),
    "bufs": (Bufs, "tensor"),
    "custom_setattr": (CustomSetattr, "tensor"),
    "encoder": (lambda: nn.TransformerEncoderLayer(d_model=4, nhead=2, dim_feedforward=8, dropout=0.0), "seq"),
    "tdseq": (_tdmodule, "td"),
    "lazy": (lambda: nn.Sequential(nn.LazyLinear(2), nn.Tanh()), "tensor"),
    "with_tdparams": (WithTDParams, "tensor"),
    "plain_attr": (PlainAttr, "tensor"),
    "param_containers": (ParamContainers, "tensor"),
    "recurrent": (Recurrent, "seq"),
    "weight_norm": (_weight_norm, "tensor"),
}
PARAM_KINDS = ["plain", "tdparams", "as_module", "same", "locked", "subset", "param_all", "cross_kind", "locked_sub"]
OPTIONS = [{}, {"inplace": True}, {"use_state_dict": True}, {"inplace": False}]
FAULTS = ["none", "before", "forward_hook", "pre_hook", "after",
          # left by a BaseException that is not an Exception
          "keyboard_hook", "system_exit_after", "generator_close", "cancelled_task"]


def make_input(kind):
    g = torch.Generator().manual_seed(7)
    if kind == "tensor":
        return (torch.randn(5, 3, generator=g),)
    if kind == "seq":
        return (torch.randn(5, 2, 4, generator=g),)
    from tensordict import TensorDict
    return (TensorDict({"x": torch.randn(5, 3, generator=g)}, batch_size=[5]),)


KEEP_ALIVE = []


def make_params(kind, module, rng):
    from tensordict import TensorDict
    from tensordict.nn import TensorDictParams
    base = TensorDict.from_module(module)
    if kind == "same":
        return base
    if kind == "as_module":
        return TensorDict.from_module(module, as_module=True)
    data = base.data.clone().apply(lambda t: t * 0.5 + 0.25 if t.is_floating_point() else t.clone())
    if kind == "plain":
        return data
    if kind == "tdparams":
        return TensorDictParams(data)
    if kind == "param_all":
        return data.apply(lambda t: nn.Parameter(t) if t.is_floating_point() else t)
    if kind == "cross_kind":
        # the other class everywhere: plain tensors for the module's Parameters, Parameters for its buffers and for
        # its plain tensor attributes (which from_module does not list: added by hand)
        out = base.apply(lambda t: (t.data.clone() * 0.5 + 0.25) if isinstance(t, nn.Parameter) else
                         (nn.Parameter(t.clone() * 0.5 + 0.25) if t.is_floating_point() else t.clone()))
        for name, sub in module.named_modules(remove_duplicate=False):
            for k, v in list(sub.__dict__.items()):
                if isinstance(v, torch.Tensor) and v.is_floating_point():
                    out.set(tuple(name.split(".")) + (k,) if name else k, nn.Parameter(v.clone() + 1.0))
        return out
    if kind == "locked":
        return data.lock_()
    if kind == "locked_sub":
        # a sub-tensordict of a locked tensordict: it cannot be unlocked on its own
        from tensordict import TensorDict as _TD
        parent = _TD({"p": data}, batch_size=[]).lock_()
        sub = parent["p"]
        KEEP_ALIVE.append(parent)
        return sub
    if kind == "subset":
        keys = sorted(data.keys(True, True), key=str)
        keep = [k for k in keys if rng.random() < 0.5] or keys[:1]
        return data.select(*keep)
    raise ValueError(kind)


def snap(module):
    mods = list(module.modules())
    return {
        "params": {k: id(v) for k, v in module.named_parameters(remove_duplicate=False)},
        "buffers": {k: id(v) for k, v in module.named_buffers(remove_duplicate=False)},
        "keys": [(sorted(m._parameters), sorted(m._buffers), sorted(m._non_persistent_buffers_set),
                  sorted(k for k, v in m.__dict__.items() if isinstance(v, torch.Tensor))) for m in mods],
    }


def values(module):
    out = {}
    for k, v in itertools.chain(module.named_parameters(remove_duplicate=False), module.named_buffers(remove_duplicate=False)):
        try:
            out[k] = v.detach().clone()
        except Exception:  # noqa: BLE001 (uninitialised)
            out[k] = None
    return out


def diff(a, b):
    out = []
    for part in ("params", "buffers"):
        for k in sorted(set(a[part]) | set(b[part])):
            if a[part].get(k) != b[part].get(k):
                out.append(f"{part}:{k}:{'lost' if k not in b[part] else 'added' if k not in a[part] else 'other-object'}")
    if not out and a["keys"] != b["keys"]:
        out.append("key-sets")
    return out


def has_tied(module):
    ids = [id(v) for _, v in itertools.chain(module.named_parameters(remove_duplicate=False), module.named_buffers(remove_duplicate=False))]
    return len(ids) != len(set(ids))


def shared_subtrees_differ(module, params, seen=None):
    """does `params` give a submodule that is reached through two names two different sub-tensordicts?"""
    from tensordict.base import TensorDictBase
    seen = {} if seen is None else seen
    for k, v in params.items():
        if not isinstance(v, TensorDictBase):
            continue
        child = module._modules.get(k)
        if child is None:
            continue
        sig = sorted((str(kk), id(vv)) for kk, vv in v.items(True, True))
        if id(child) in seen:
            if seen[id(child)] != sig:
                return True
            continue
        seen[id(child)] = sig
        if shared_subtrees_differ(child, v, seen):
            return True
    return False


def as_out(y):
    from tensordict.base import TensorDictBase
    if isinstance(y, TensorDictBase):
        return {k: v.detach().clone() for k, v in y.items(True, True)}
    return {"out": y.detach().clone()}


def one_case(run, fname, pkind, opts, fault, rng):
    from tensordict import TensorDict
    factory, ikind = FACTORIES[fname]
    torch.manual_seed(3)
    module = factory()
    args = make_input(ikind)
    case = [fname, pkind, sorted(opts.items()), fault]
    ckey = "zoo:" + "/".join(map(str, case))
    run.case(ckey)
    run.count("zoo.factory", fname)
    run.count("zoo.params", pkind)
    run.count("zoo.fault", fault)
    try:
        params = make_params(pkind, module, rng)
    except Exception as e:  # noqa: BLE001
        run.count("zoo.skipped", f"params:{type(e).__name__}")
        run.oracle_fail("zoo_entry", case, f"building the parameter tensordict ({pkind}) raised {type(e).__name__}: {str(e)[:100]}", f"zoo:params:{pkind}:{type(e).__name__}")
        return
    before, vals_before = snap(module), values(module)
    # reference output on an independent copy
    ref = None
    if fault == "none" and fname != "lazy":
        try:
            ref_mod = copy.deepcopy(module)
            flat = {(".".join(k) if isinstance(k, tuple) else k): v.detach().clone() for k, v in params.items(True, True)}
            with time_limit(60):
                ref = as_out(torch.func.functional_call(ref_mod, flat, copy.deepcopy(args), strict=False, tie_weights=False))
        except Exception:  # noqa: BLE001
            ref = None
    subs = list(module.modules())
    target = subs[rng.randrange(0, len(subs))] if fault in ("forward_hook", "pre_hook") else None
    # the parameter tensordict as an unreferenced temporary (the swap only keeps a weak reference to it)
    temp = pkind not in ("same", "as_module", "locked_sub") and rng.random() < 0.4
    differ = shared_subtrees_differ(module, params)
    run.count("zoo.params_temporary", temp)
    handle = None
    out = None
    swap_td = None
    entered = False
    raised = None
    inside_bad = None
    if fault in ("generator_close", "cancelled_task"):
        # the block lives inside a generator closed by its consumer / a coroutine whose task is cancelled
        import asyncio
        entered = True
        try:
            with time_limit(90):
                if fault == "generator_close":
                    def gen():
                        with params.to_module(module, **opts):
                            yield 1
                            yield 2
                    g = gen()
                    next(g)
                    g.close()
                else:
                    async def body():
                        with params.to_module(module, **opts):
                            await asyncio.sleep(30)

                    async def main_():
                        t = asyncio.ensure_future(body())
                        await asyncio.sleep(0)
                        t.cancel()
                        try:
                            await t
                        except asyncio.CancelledError:
                            pass
                    asyncio.run(main_())
        except TimeoutError:
            raise
        except Exception as e:  # noqa: BLE001
            raised = e
            if isinstance(e, RuntimeError) and "boolean" in str(e):
                run.oracle_fail("zoo_restore", case, "the GeneratorExit / CancelledError leaving the block was replaced by " + str(e)[:60], "zoo:base-exception-masked")
                return
            run.count("zoo.entry_error", f"{fname}/{pkind}/{sorted(opts)}:{type(e).__name__}")
            return
        d = diff(before, snap(module))
        if d:
            run.oracle_fail("zoo_restore", case, f"module differs after a block left by {fault}: " + ",".join(d[:6]),
                            f"zoo:{'+'.join(f'{k}={v}' for k, v in sorted(opts.items())) or 'default'}:base-exception:{d[0].split(':')[0]}")
        else:
            run.oracle_ok("zoo_restore")
        return
    try:
        with time_limit(90):
            swap_td = params.to_module(module, **opts)
            if temp:
                del params
                if swap_td._last_op[1][2]() is not None:
                    import gc
                    gc.collect()
            with swap_td:
                entered = True
                # a TensorDictParams inside the module tree exposes exactly its (now swapped-in) leaves also inside the block
                from tensordict.nn import TensorDictParams as _TDP
                for sub in module.modules():
                    if isinstance(sub, _TDP):
                        lv = {(".".join(k) if isinstance(k, tuple) else k): v for k, v in sub._param_td.items(True, True)}
                        ex = dict(sub.named_parameters(remove_duplicate=False))
                        ex.update(dict(sub.named_buffers(remove_duplicate=False)))
                        if set(lv) != set(ex) or any(ex[k] is not lv[k] for k in lv):
                            inside_bad = f"inside the block a TensorDictParams submodule exposes {sorted(ex)} (stale objects) while its leaves are the swapped-in ones"
                if fault == "before":
                    raise Boom()
                if fault == "keyboard_hook":
                    handle = subs[-1].register_forward_hook(lambda *a, **k: (_ for _ in ()).throw(KeyboardInterrupt()))
                if fault == "forward_hook":
                    handle = target.register_forward_hook(lambda *a, **k: (_ for _ in ()).throw(Boom()))
                elif fault == "pre_hook":
                    handle = target.register_forward_pre_hook(lambda *a, **k: (_ for _ in ()).throw(Boom()))
                if fname != "lazy" or fault != "none":
                    out = as_out(module(*copy.deepcopy(args))) if fname != "lazy" else None
                if fault == "system_exit_after":
                    raise SystemExit(3)
                if fault == "keyboard_hook":
                    raise KeyboardInterrupt()
                if fault != "none":
                    raise Boom()
    except TimeoutError:
        raise
    except Boom as e:
        raised = e
    except Exception as e:  # noqa: BLE001
        raised = e
    except (KeyboardInterrupt, SystemExit) as e:
        if fault not in ("keyboard_hook", "system_exit_after"):
            raise
        raised = Boom()      # the injected BaseException arrived unchanged
    finally:
        if handle is not None:
            handle.remove()
    if not entered:
        run.count("zoo.entry_error", f"{fname}/{pkind}/{sorted(opts)}:{type(raised).__name__}")
        if fname == "lazy" and opts.get("inplace"):
            # a legitimate refusal: values cannot be copied into an uninitialised parameter
            return
        # the parameters were taken from this very module: to_module has no reason to refuse them
        left = diff(before, snap(module))
        run.oracle_fail("zoo_entry", case, f"to_module({', '.join(f'{k}={v}' for k, v in sorted(opts.items()))}) raised {type(raised).__name__}: "
                        f"{str(raised)[:80]} on parameters taken from the module itself" + (f"; the module is left modified: {left[:3]}" if left else ""),
                        f"zoo:entry:{fname}:{'+'.join(sorted(opts)) or 'default'}:{type(raised).__name__}")
        return
    if raised is not None and not isinstance(raised, Boom):
        run.count("zoo.body_or_exit_error", f"{fname}/{pkind}/{sorted(opts)}/{fault}:{type(raised).__name__}")
    d = diff(before, snap(module))
    fp_opts = "+".join(f"{k}={v}" for k, v in sorted(opts.items())) or "default"
    if inside_bad and not opts:
        run.oracle_fail("zoo_restore", case, inside_bad, "zoo:tdparams-module-stale-inside")
        return
    if d:
        run.oracle_fail("zoo_restore", case, f"module differs after the block (exception: {type(raised).__name__ if raised else None}): " + ",".join(d[:6]),
                        f"zoo:{fp_opts}:{'raise' if fault != 'none' else 'normal'}:{d[0].split(':')[0]}:{d[0].split(':')[-1]}")
        return
    if opts.get("inplace"):
        vals_after = values(module)
        bad = [k for k in vals_before if vals_before[k] is not None and not torch.equal(vals_before[k], vals_after[k])]
        # buffers updated by the forward pass itself (BatchNorm statistics) are not the block's doing
        bad = [k for k in bad if not (k.endswith("running_mean") or k.endswith("running_var") or k.endswith("num_batches_tracked"))]
        if bad:
            ids = {}
            for k, v in itertools.chain(module.named_parameters(remove_duplicate=False), module.named_buffers(remove_duplicate=False)):
                ids.setdefault(id(v), []).append(k)
            tied = all(any(k in names and len(names) > 1 for names in ids.values()) for k in bad)
            run.oracle_fail("zoo_restore", case, f"inplace: values not restored for {bad[:5]}",
                            f"zoo:{fp_opts}:values:{'tied-tensor' if tied else 'untied'}")
            return
    if swap_td is not None and len(getattr(swap_td, "_last_op_queue", ())):
        run.oracle_fail("zoo_restore", case, "stale _last_op_queue record", f"zoo:{fp_opts}:queue")
        return
    run.oracle_ok("zoo_restore")
    if ref is not None and out is not None and raised is None:
        if opts.get("inplace") and has_tied(module):
            # writing in place into a tensor that is registered under two names changes both: functional_call on
            # separate names is not a reference for that
            run.count("zoo.output_skipped", "inplace+tied")
            return
        same = ref.keys() == out.keys() and all(torch.equal(ref[k], out[k]) for k in ref)
        if same:
            run.oracle_ok("zoo_output")
        elif differ:
            run.oracle_fail("functional", case, "output inside the block differs from functional_call on a copy (shared submodule, different sub-tensordicts)",
                            "functional:shared-subtrees-differ")
        else:
            run.oracle_fail("zoo_output", case, "output inside the block differs from functional_call on a copy", f"zoo_output:{fp_opts}:{pkind}")


def vmap_cases(run, rng):
    """parameters batched for vmap: per-sample loop == vmap over the batched tensordict, module restored"""
    from tensordict import TensorDict
    for fname in ("shared", "tied", "custom_setattr"):
        factory, _ = FACTORIES[fname]
        torch.manual_seed(5)
        module = factory()
        x = torch.randn(4, 3)
        base = TensorDict.from_module(module).data
        batched = torch.stack([base.apply(lambda t, i=i: t * (0.5 + i)) for i in range(3)], 0)  # dense stack
        before = snap(module)
        case = ["vmap", fname]
        run.case("zoo:vmap:" + fname)

        def call(p, x):
            with p.to_module(module):
                return module(x)
        try:
            with time_limit(60):
                out = torch.vmap(call, (0, None))(batched, x)
                loop = torch.stack([call(batched[i], x) for i in range(3)], 0)
        except TimeoutError:
            raise
        except Exception as e:  # noqa: BLE001
            run.count("zoo.vmap_error", f"{fname}:{type(e).__name__}")
            run.oracle_fail("zoo_output", case, f"vmap over batched parameters raised {type(e).__name__}: {str(e)[:100]}", f"zoo:vmap:raised:{type(e).__name__}")
            continue
        d = diff(before, snap(module))
        if d:
            run.oracle_fail("zoo_restore", case, "module differs after vmap over batched parameters: " + ",".join(d[:4]), "zoo:vmap:" + d[0].split(":")[0])
        elif not torch.allclose(out, loop, atol=1e-6):
            run.oracle_fail("zoo_output", case, "vmap over batched parameters != per-sample loop", "zoo_output:vmap")
        else:
            run.oracle_ok("zoo_restore")
            run.oracle_ok("zoo_output")


def vmap_variants(run, rng):
    """more ways to vmap over batched parameters (the patched torch vmap of tensordict/nn/functional_modules.py): the stack
    from `from_modules`, a tensordict as the *output* of the mapped function, out_dims=1, the parameters batched along dim 1,
    vmap nested over parameters and inputs, and an exception raised inside the mapped function: each equals the per-sample
    loop, and the module is restored."""
    from tensordict import TensorDict
    for fname, variant in itertools.product(("shared", "tied", "custom_setattr", "plain_attr", "param_containers"),
                                            ("from_modules", "td_out", "out_dims_1", "in_dim_1", "nested", "raise")):
        factory, _ = FACTORIES[fname]
        torch.manual_seed(5)
        module = factory()
        x = torch.randn(4, 3)
        case = ["vmap", fname, variant]
        run.case("zoo:vmap:" + fname + ":" + variant)
        before = snap(module)
        base = TensorDict.from_module(module).data

        def call(p, x):
            with p.to_module(module):
                return module(x)
        try:
            with time_limit(90):
                if variant == "from_modules":
                    torch.manual_seed(6)
                    copies = [factory() for _ in range(3)]
                    batched = TensorDict.from_modules(*copies)
                    out = torch.vmap(call, (0, None))(batched, x)
                    loop = torch.stack([c(x) for c in copies], 0)
                else:
                    batched = torch.stack([base.apply(lambda t, i=i: t * (0.5 + i)) for i in range(3)], 0)
                    loop = torch.stack([call(batched[i], x) for i in range(3)], 0)
                    if variant == "td_out":
                        res = torch.vmap(lambda p, x: TensorDict({"y": call(p, x)}, [4]), (0, None))(batched, x)
                        out = res["y"]
                        if tuple(res.batch_size) != (3, 4):
                            raise AssertionError(f"batch_size of the mapped tensordict {tuple(res.batch_size)}")
                    elif variant == "out_dims_1":
                        out = torch.vmap(call, (0, None), out_dims=1)(batched, x).transpose(0, 1)
                    elif variant == "in_dim_1":
                        b2 = torch.stack([batched, batched], 0)          # batch [2, 3]: map over dim 1
                        out = torch.vmap(lambda p, x: call(p[0], x), (1, None))(b2, x)
                    elif variant == "nested":
                        out = torch.vmap(torch.vmap(call, (None, 0)), (0, None))(batched, x)
                    else:
                        class VBoom(Exception):
                            pass

                        def bad(p, x):
                            with p.to_module(module):
                                module(x)
                                raise VBoom()
                        try:
                            torch.vmap(bad, (0, None))(batched, x)
                        except VBoom:
                            pass
                        out = loop
        except TimeoutError:
            raise
        except AssertionError as e:
            run.oracle_fail("zoo_output", case, str(e), "zoo_output:vmap:" + variant)
            continue
        except Exception as e:  # noqa: BLE001
            run.count("zoo.vmap_error", f"{fname}:{variant}:{type(e).__name__}")
            run.oracle_fail("zoo_output", case, f"vmap variant raised {type(e).__name__}: {str(e)[:100]}", f"zoo:vmap:raised:{variant}:{type(e).__name__}")
            d = diff(before, snap(module))
            if d:
                run.oracle_fail("zoo_restore", case, f"module differs after a failed vmap ({type(e).__name__}): " + ",".join(d[:4]), "zoo:vmap:" + d[0].split(":")[0])
            continue
        d = diff(before, snap(module))
        if d:
            run.oracle_fail("zoo_restore", case, "module differs after vmap over batched parameters: " + ",".join(d[:4]), "zoo:vmap:" + d[0].split(":")[0])
        elif out.shape != loop.shape or not torch.allclose(out, loop, atol=1e-5):
            run.oracle_fail("zoo_output", case, "vmap over batched parameters != per-sample loop", "zoo_output:vmap:" + variant)
        else:
            run.oracle_ok("zoo_restore")
            run.oracle_ok("zoo_output")


class StateDictHooked(nn.Module):
    """a submodule with a load_state_dict pre-hook that rewrites an entry (what `use_state_dict=True` is for)"""

    def __init__(self):
        super().__init__()
        self.lin = nn.Linear(3, 2)
        self.register_buffer("scale", torch.ones(2))
        self.lin._register_load_state_dict_pre_hook(self._double)

    @staticmethod
    def _double(state_dict, prefix, local_metadata, strict, missing_keys, unexpected_keys, error_msgs):
        if prefix + "weight" in state_dict:
            state_dict[prefix + "weight"] = state_dict[prefix + "weight"] * 2

    def forward(self, x):
        return self.lin(x) * self.scale


def state_dict_hook_oracle(run):
    """to_module(use_state_dict=True) on a module with a load_state_dict pre-hook: inside the block the module computes what a
    copy computes after `load_state_dict(params)` (the hook ran); without use_state_dict the hook does not run; and when the
    block exits the module holds its own objects again."""
    from tensordict import TensorDict
    for fault in ("none", "before"):
        case = ["state_dict_hook", fault]
        run.case("zoo:state_dict_hook:" + fault)
        torch.manual_seed(9)
        module = StateDictHooked()
        x = torch.randn(4, 3)
        before = snap(module)
        params = TensorDict.from_module(module).data.apply(lambda t: t + 1.0)
        ref = copy.deepcopy(module)
        ref.load_state_dict({".".join(k) if isinstance(k, tuple) else k: v for k, v in params.items(True, True)})
        inside = None
        try:
            with time_limit(60):
                try:
                    with params.to_module(module, use_state_dict=True):
                        if fault == "before":
                            raise Boom()
                        inside = module(x).detach().clone()
                except Boom:
                    pass
                with params.to_module(module):
                    plain_ok = torch.equal(module.lin.weight, params["lin", "weight"])
        except TimeoutError:
            raise
        except Exception as e:  # noqa: BLE001
            run.oracle_fail("zoo_output", case, f"raised {type(e).__name__}: {str(e)[:100]}", "zoo:state_dict_hook:raised")
            continue
        if inside is not None and not torch.allclose(inside, ref(x).detach(), atol=1e-6):
            run.oracle_fail("zoo_output", case, "inside the block the module does not compute what load_state_dict(params) gives (the state-dict pre-hook)",
                            "zoo_output:state_dict_hook")
        elif not plain_ok:
            run.oracle_fail("zoo_output", case, "the state-dict pre-hook ran although use_state_dict was not requested", "zoo_output:state_dict_hook:plain")
        else:
            run.oracle_ok("zoo_output")
        d = diff(before, snap(module))
        if d:
            run.oracle_fail("zoo_restore", case, "use_state_dict=True with a load_state_dict pre-hook: the module is not restored when the block exits "
                            "(the hooks run again on the tensors that are put back): " + ",".join(d[:4]), "zoo:state_dict_hook:not-restored")
        else:
            run.oracle_ok("zoo_restore")


def from_module_options(run):
    """from_module with its options on the real layers: exactly the parameters and buffers under their qualified names"""
    from tensordict import TensorDict
    from tensordict.nn import TensorDictParams
    for fname, (factory, _) in FACTORIES.items():
        if fname in ("lazy", "with_tdparams"):
            continue
        torch.manual_seed(1)
        module = factory()
        named = dict(module.named_parameters(remove_duplicate=False))
        named.update(dict(module.named_buffers(remove_duplicate=False)))
        for opt in ("default", "as_module", "lock", "filter_empty_false", "use_state_dict"):
            run.case(("from_module_opt", fname, opt))
            case = [fname, opt]
            try:
                with time_limit(90):
                    if opt == "default":
                        td = TensorDict.from_module(module)
                    elif opt == "as_module":
                        td = TensorDict.from_module(module, as_module=True)
                    elif opt == "lock":
                        td = TensorDict.from_module(module, lock=True)
                    elif opt == "filter_empty_false":
                        td = TensorDict.from_module(module, filter_empty=False)
                    else:
                        td = TensorDict.from_module(module, use_state_dict=True)
            except TimeoutError:
                raise
            except Exception as e:  # noqa: BLE001
                run.oracle_fail("from_module_options", case, f"raised {type(e).__name__}", "from_module_options:raised")
                continue
            flat = {(".".join(k) if isinstance(k, tuple) else k): v for k, v in td.items(True, True)}
            bad = []
            if opt == "use_state_dict":
                sd = module.state_dict()
                if set(flat) != set(sd) or any(not torch.equal(flat[k], sd[k]) for k in sd):
                    bad.append(f"keys/values differ from state_dict(): {sorted(set(flat) ^ set(sd))}")
            else:
                if set(flat) != set(named):
                    bad.append(f"keys differ from named_parameters+named_buffers: {sorted(set(flat) ^ set(named))}")
                elif opt == "as_module":
                    # TensorDictParams(no_convert=True) re-wraps plain buffer tensors as Buffer objects over the same storage
                    wrong = [k for k in named if flat[k] is not named[k] and
                             (isinstance(named[k], nn.Parameter) or flat[k].data_ptr() != named[k].data_ptr())]
                    if wrong:
                        bad.append(f"leaves that are neither the module's object nor a Buffer over its storage: {wrong}")
                elif any(flat[k] is not named[k] for k in named):
                    bad.append("some leaf is not the module's own object")
            if opt == "as_module" and not isinstance(td, TensorDictParams):
                bad.append("as_module=True did not return a TensorDictParams")
            if opt == "lock" and not td.is_locked:
                bad.append("lock=True returned an unlocked tensordict")
            if bad:
                run.oracle_fail("from_module_options", case, "; ".join(bad), "from_module_options:" + opt)
            else:
                run.oracle_ok("from_module_options")


def from_modules_oracle(run):
    """TensorDict.from_modules (parameters of several modules stacked for vmap) with its options, on the real layers: entry i of
    the stack holds exactly the parameters and buffers of module i under their qualified names (names, shapes, values), a
    Parameter stays a Parameter with its requires_grad, a buffer stays a non-Parameter"""
    from tensordict import TensorDict
    from tensordict.nn import TensorDictParams
    for fname, (factory, _) in FACTORIES.items():
        if fname in ("lazy", "with_tdparams"):
            continue
        for opts in ({}, {"as_module": True}, {"lazy_stack": True}, {"expand_identical": True}, {"use_state_dict": True}, {"lock": False}):
            case = ["from_modules", fname, sorted(opts)]
            run.case("zoo:from_modules:" + fname + ":" + ",".join(sorted(opts)))
            torch.manual_seed(2)
            mods = [factory() for _ in range(3)]
            for i, m in enumerate(mods):
                with torch.no_grad():
                    for p in m.parameters():
                        p.add_(i)
            usd = opts.get("use_state_dict", False)
            try:
                with time_limit(90):
                    ps = TensorDict.from_modules(*mods, **opts)
            except TimeoutError:
                raise
            except Exception as e:  # noqa: BLE001
                run.oracle_fail("from_modules", case, f"raised {type(e).__name__}: {str(e)[:100]}", f"from_modules:raised:{type(e).__name__}")
                continue
            bad = []
            if tuple(ps.batch_size)[:1] != (3,):
                bad.append(f"batch_size {tuple(ps.batch_size)}")
            if opts.get("as_module") and not isinstance(ps, TensorDictParams):
                bad.append("as_module=True did not return a TensorDictParams")
            if ps.is_locked != opts.get("lock", True):
                bad.append(f"is_locked={ps.is_locked}")
            refs = [TensorDict.from_module(m, use_state_dict=usd) for m in mods]
            for i, ref in enumerate(refs):
                got = ps[i]
                kr, kg = set(ref.keys(True, True)), set(got.keys(True, True))
                if kr != kg:
                    bad.append(f"names of entry {i}: {sorted(map(str, kr ^ kg))[:4]}")
                    continue
                for k in kr:
                    a, b = ref.get(k), got.get(k)
                    if a.shape != b.shape or not torch.equal(a.data, b.data):
                        bad.append(f"value of entry {i} at {k}")
            if not opts.get("lazy_stack"):
                inner = ps._param_td if isinstance(ps, TensorDictParams) else ps
                for k in refs[0].keys(True, True):
                    a, b = refs[0].get(k), inner.get(k)
                    if isinstance(a, nn.Parameter) != isinstance(b, nn.Parameter):
                        bad.append(f"class at {k}: {type(a).__name__} -> {type(b).__name__}")
                    elif isinstance(a, nn.Parameter) and a.requires_grad != b.requires_grad:
                        bad.append(f"requires_grad at {k}")
            if bad:
                run.oracle_fail("from_modules", case, "; ".join(bad[:5]), "from_modules:" + bad[0].split(" ")[0])
            else:
                run.oracle_ok("from_modules")


def run_zoo(run):
    from_module_options(run)
    from_modules_oracle(run)
    rng = run.rng
    combos = list(itertools.product(FACTORIES, PARAM_KINDS, range(len(OPTIONS)), FAULTS))
    if run.tier == "quick":
        rng.shuffle(combos)
        # every factory x every option x {normal, one fault} at least once, then a random sample
        must = [(f, "plain", o, ft) for f in FACTORIES for o in range(len(OPTIONS)) for ft in ("none", "before")]
        must += [(f, pk, 0, ft) for f in FACTORIES for pk in PARAM_KINDS for ft in ("none", "forward_hook")]
        must += [(f, "plain", 0, ft) for f in FACTORIES for ft in ("keyboard_hook", "system_exit_after", "generator_close", "cancelled_task")]
        combos = must + combos[:120]
    seen = set()
    for f, pk, o, ft in combos:
        if (f, pk, o, ft) in seen:
            continue
        seen.add((f, pk, o, ft))
        one_case(run, f, pk, OPTIONS[o], ft, rng)
    vmap_cases(run, rng)
    vmap_variants(run, rng)
    state_dict_hook_oracle(run)
