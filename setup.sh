#!/bin/bash
# offline setup: regenerate the source-derived Lean files, build every model, theorem and the driver
set -e
cd "$(dirname "$0")"
export PYTHONPATH="$PWD/harness:$PYTHONPATH" PYTHONDONTWRITEBYTECODE=1
/venv/bin/python harness/regen_all.py
cd lean && lake build TdVerif driver
