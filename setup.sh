#!/bin/bash
# offline setup: regenerate the source-derived Lean files, build every model, theorem and the per-property drivers.
# A property whose files do not build must not prevent the others from being built (each check rebuilds its own
# targets anyway and reports a broken build as a broken obligation of THAT property only).
cd "$(dirname "$0")"
export PYTHONPATH="$PWD/harness:$PYTHONPATH" PYTHONDONTWRITEBYTECODE=1
/venv/bin/python harness/regen_all.py || true
cd lean
lake build TdVerif || echo "setup: the root library did not build completely (see above); building the per-property targets one by one"
for i in $(seq -w 1 20); do
  lake build TdVerif.Props.C$i driver_c$i >/dev/null 2>&1 || echo "setup: WARNING property C$i does not build"
done
exit 0
